CONSTANTS
  TypeIds <- SynTypeIds
  ChildSeq <- SynChildSeq
  NodeIds <- SynNodeIds
  NodeRefs <- SynNodeRefs
  GhostNodes <- SynGhosts
  QueryTypes <- SynQueryTypes
  MaskSets <- SynMasksQ
  HasSubtypeId <- HS
  Dev_IgnoreSubtypeFlag = TRUE
  Dev_DeleteLoop = FALSE
  Emit = FALSE
  Phase = 0
INIT Init
NEXT Next
INVARIANT InvContract
INVARIANT InvPrefix
INVARIANT TypeInv
CHECK_DEADLOCK FALSE
