CONSTANTS
  TypeIds <- StdTypeIds
  ChildSeq <- StdChildSeq
  NodeIds <- StdNodeIds
  NodeRefs <- StdNodeRefs
  GhostNodes <- StdGhosts
  QueryTypes <- StdQueryTypes
  MaskSets <- StdMasks
  HasSubtypeId <- StdHS
  Dev_IgnoreSubtypeFlag = FALSE
  Dev_DeleteLoop = FALSE
  Emit = TRUE
  Samples = 300
  MaskMode = "all"
INIT InitSample
NEXT NextWhole
INVARIANT InvContract
INVARIANT InvEmit
CHECK_DEADLOCK FALSE
