----------------------------- MODULE BrowseStd -----------------------------
(***************************************************************************)
(* C33 on real nodes: the address space is what the running server holds.  *)
(* The harness exports (in-process, server.VerifNodeRefs) the reference     *)
(* type hierarchy and the own reference lists of a seeded sample of nodes   *)
(* into space.json; the same Browse operators compute the contract answer   *)
(* for seeded / enumerated queries on those nodes.                          *)
(***************************************************************************)
EXTENDS Browse

CONSTANTS Samples,     \* number of seeded (node, query) draws (InitSample)
          MaskMode     \* "all": every subset of StdClassBits, "some": a fixed selection

J == JsonDeserialize("space.json")
StdTypeIds  == DOMAIN J.types
StdChildSeq == J.types
StdNodeIds  == DOMAIN J.nodes
StdNodeRefs == J.nodes
StdGhosts   == {}
StdClassBits == {1, 2, 4, 8, 16, 32, 64, 128}
StdHS == "i=45"

Parents(t) == {a \in StdTypeIds : t \in Range(StdChildSeq[a])}
RECURSIVE AncR(_, _)
AncR(t, seen) == LET ps == Parents(t) \ seen IN ps \cup UNION {AncR(p, seen \cup ps) : p \in ps}
Ancestors(t) == AncR(t, {t})
\* reference types worth asking for on a node: the types on its references, all their
\* supertypes (including the abstract ones), the subtypes of those types that the node does
\* not use (must not match), an id without a node, and the null id
OnNode(nd)   == {StdNodeRefs[nd][k].t : k \in DOMAIN StdNodeRefs[nd]}
Relevant(nd) == LET on == OnNode(nd)
                    up == UNION {Ancestors(t) : t \in on}
                    dn == UNION {Descendants(t) : t \in on}
                IN on \cup up \cup dn \cup {"i=31", "i=33", "i=45", "ns=1;s=nosuchtype", Null}
StdMasks == IF MaskMode = "all" THEN SUBSET StdClassBits
            ELSE {{}, {1}, {2}, {4}, {8}, {16}, {32}, {64}, {1, 2}, {2, 4, 64}, {8, 16, 32}, {128}, StdClassBits}

StdQueryTypes == StdTypeIds \cup {"ns=1;s=nosuchtype"}

InitAll == /\ node \in StdNodeIds
           /\ q \in [dir : Dirs, rt : Relevant(node), sub : BOOLEAN, mask : StdMasks]
           /\ pc = "lookup" /\ i = 0 /\ out = {} /\ status = "none"

\* small exhaustive slice for the deviation demo on the real hierarchy
InitDev == /\ node \in StdNodeIds
           /\ q \in [dir : {"both"}, rt : Relevant(node), sub : {FALSE}, mask : {{}}]
           /\ pc = "lookup" /\ i = 0 /\ out = {} /\ status = "none"

InitSample == /\ \E k \in 1..Samples :
                    /\ node = RandomElement(StdNodeIds)
                    /\ q = [dir |-> RandomElement(Dirs), rt |-> RandomElement(Relevant(node)),
                            sub |-> RandomElement(BOOLEAN), mask |-> RandomElement(StdMasks)]
              /\ pc = "lookup" /\ i = 0 /\ out = {} /\ status = "none"
=============================================================================
