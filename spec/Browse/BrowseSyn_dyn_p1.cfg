CONSTANTS
  TypeIds <- PhTypeIds
  ChildSeq <- PhChildSeq
  NodeIds <- SynNodeIds
  NodeRefs <- PhNodeRefs
  GhostNodes <- SynNoGhosts
  QueryTypes <- SynQueryTypes
  MaskSets <- SynMasksDyn
  HasSubtypeId <- HS
  Dev_IgnoreSubtypeFlag = FALSE
  Dev_DeleteLoop = FALSE
  Emit = TRUE
  Phase = 1
INIT Init
NEXT NextWhole
INVARIANT InvContract
INVARIANT InvPrefix
INVARIANT TypeInv
INVARIANT InvEmit
CHECK_DEADLOCK FALSE
