CONSTANTS
  TypeIds <- SynTypeIds
  ChildSeq <- SynChildSeq
  NodeIds <- SynNodeIds
  NodeRefs <- SynNodeRefs
  GhostNodes <- SynGhosts
  QueryTypes <- SynQueryTypes
  MaskSets <- SynMasksQ
  HasSubtypeId <- HS
  Dev_IgnoreSubtypeFlag = FALSE
  Dev_DeleteLoop = FALSE
  Emit = TRUE
  Phase = 0
INIT Init
NEXT NextWhole
INVARIANT InvContract
INVARIANT InvPrefix
INVARIANT TypeInv
INVARIANT InvEmit
CHECK_DEADLOCK FALSE
