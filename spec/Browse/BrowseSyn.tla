----------------------------- MODULE BrowseSyn -----------------------------
(***************************************************************************)
(* Synthetic address space for C33: a small reference type hierarchy       *)
(*                                                                         *)
(*        R0                R4 (unrelated)      RU (id without a node)     *)
(*       /  \                                                              *)
(*      R1   R2                                                            *)
(*      |     \                                                            *)
(*      R3    i=45 (the real HasSubtype type, hung below R2 so that both   *)
(*                  branches of the deletion loop are reachable:          *)
(*                  position 0 in Dfs(R2), position 3 in Dfs(R0))          *)
(*                                                                         *)
(* and three browsable nodes: A carries every (type, direction, class)     *)
(* combination once, B a few references with duplicates, E none.  The Go   *)
(* harness builds exactly this space in the real server from the SPACE row *)
(* printed below.                                                          *)
(***************************************************************************)
EXTENDS Browse

HS == "i=45"
SynTypeIds  == {"R0", "R1", "R2", "R3", "R4", HS}
SynChildSeq == [t \in SynTypeIds |->
                  CASE t = "R0" -> <<"R1", "R2">>
                    [] t = "R1" -> <<"R3">>
                    [] t = "R2" -> <<HS>>
                    [] OTHER    -> <<>>]
SynRefTypes == <<"R0", "R1", "R2", "R3", "R4", "RU">>       \* types used on references
SynClasses  == <<1, 2, 4>>                                   \* Object, Variable, Method
Target(c)   == CASE c = 1 -> "TObj" [] c = 2 -> "TVar" [] c = 4 -> "TMeth"

\* A: cross product, 6 types x 2 directions x 3 classes = 36 references
ARefs == [k \in 1..36 |->
            LET ti == ((k - 1) \div 6) + 1
                fi == ((k - 1) \div 3) % 2
                ci == ((k - 1) % 3) + 1
            IN [t |-> SynRefTypes[ti], f |-> (fi = 0), c |-> SynClasses[ci], n |-> Target(SynClasses[ci])]]
BRefs == << [t |-> "R3", f |-> TRUE,  c |-> 2, n |-> "TVar"],
            [t |-> "R3", f |-> TRUE,  c |-> 2, n |-> "TVar"],      \* duplicate reference
            [t |-> "R2", f |-> FALSE, c |-> 1, n |-> "TObj"],
            [t |-> HS,   f |-> TRUE,  c |-> 1, n |-> "TObj"],
            [t |-> "R0", f |-> TRUE,  c |-> 4, n |-> "TMeth"],
            [t |-> "R1", f |-> TRUE,  c |-> 1, n |-> "TNone"],     \* target node does not exist
            [t |-> "R1", f |-> FALSE, c |-> 2, n |-> "TNone"] >>
SynNodeIds  == {"A", "B", "E"}
SynNodeRefs == [nd \in SynNodeIds |-> CASE nd = "A" -> ARefs [] nd = "B" -> BRefs [] OTHER -> <<>>]
SynGhosts   == {"ghost", "ghostns"}            \* unknown node in a known namespace / unknown namespace
SynQueryTypes == {"R0", "R1", "R2", "R3", "R4", "RU", HS}
SynClassBits  == {1, 2, 4, 8}

SpaceRow == [kind |-> "space",
             types |-> [t \in SynTypeIds |-> SynChildSeq[t]],
             nodes |-> SynNodeRefs,
             targets |-> [c \in {1, 2, 4} |-> Target(c)]]
ASSUME Emit => PrintT("ROW " \o ToJson(SpaceRow))
=============================================================================
