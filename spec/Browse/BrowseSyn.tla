----------------------------- MODULE BrowseSyn -----------------------------
(***************************************************************************)
(* Synthetic address space for C33.  Names starting with "X" live in a     *)
(* second added namespace (ns 2), the other synthetic names in ns 1, ids   *)
(* written "i=.." are real namespace-0 nodes: the reference type hierarchy  *)
(* crosses a namespace boundary at every level.                            *)
(*                                                                         *)
(*    i=46 (ns0, HasProperty: a leaf of the standard hierarchy)            *)
(*      |                                                                  *)
(*      R0 (ns1)            R4 (ns1, unrelated)    RU (id without a node)  *)
(*     /  \                                                                *)
(*    R1   XR2 (ns2)                                                       *)
(*    |      \                                                             *)
(*   XR3     i=45 (ns0, the real HasSubtype type: position 0 in Dfs(XR2),  *)
(*  (ns2)          position > 0 in Dfs(R0) -- both branches of the former  *)
(*                 deletion loop)                                          *)
(*                                                                         *)
(* Browsable nodes: A (ns1) carries every (type, direction, class in       *)
(* Object / Variable / Method) combination once; B (ns1) a few references   *)
(* with duplicates and dangling targets; XC (ns2) one reference per node   *)
(* class (all eight) in both directions; E none.  Targets live in both     *)
(* namespaces.  The Go harness builds exactly this space in the real       *)
(* server from the SPACE row printed below.                                *)
(***************************************************************************)
EXTENDS Browse

HS == "i=45"
HP == "i=46"
SynTypeIds  == {HP, "R0", "R1", "XR2", "XR3", "R4", HS}
SynChildSeq == [t \in SynTypeIds |->
                  CASE t = HP    -> <<"R0">>
                    [] t = "R0"  -> <<"R1", "XR2">>
                    [] t = "R1"  -> <<"XR3">>
                    [] t = "XR2" -> <<HS>>
                    [] OTHER     -> <<>>]
SynRefTypes == <<"R0", "R1", "XR2", "XR3", "R4", "RU">>      \* types used on A's references
SynClasses  == <<1, 2, 4>>                                   \* Object, Variable, Method
AllClasses  == <<1, 2, 4, 8, 16, 32, 64, 128>>               \* + ObjectType, VariableType, ReferenceType, DataType, View
Target(c)   == CASE c = 1 -> "TObj" [] c = 2 -> "XTVar" [] c = 4 -> "TMeth" [] c = 8 -> "XTOType"
                 [] c = 16 -> "TVType" [] c = 32 -> "XTRType" [] c = 64 -> "TDType" [] c = 128 -> "XTView"

\* A: cross product, 6 types x 2 directions x 3 classes = 36 references
ARefs == [k \in 1..36 |->
            LET ti == ((k - 1) \div 6) + 1
                fi == ((k - 1) \div 3) % 2
                ci == ((k - 1) % 3) + 1
            IN [t |-> SynRefTypes[ti], f |-> (fi = 0), c |-> SynClasses[ci], n |-> Target(SynClasses[ci])]]
BRefs == << [t |-> "XR3", f |-> TRUE,  c |-> 2, n |-> "XTVar"],
            [t |-> "XR3", f |-> TRUE,  c |-> 2, n |-> "XTVar"],    \* duplicate reference
            [t |-> "XR2", f |-> FALSE, c |-> 1, n |-> "TObj"],
            [t |-> HS,    f |-> TRUE,  c |-> 1, n |-> "TObj"],
            [t |-> HP,    f |-> TRUE,  c |-> 2, n |-> "XTVar"],
            [t |-> "R0",  f |-> TRUE,  c |-> 4, n |-> "TMeth"],
            [t |-> "R1",  f |-> TRUE,  c |-> 1, n |-> "TNone"],    \* target node does not exist
            [t |-> "R1",  f |-> FALSE, c |-> 2, n |-> "XTNone"] >>
\* XC: targets of every node class, types alternating between the two ends of the chain
CRefs == [k \in 1..16 |->
            LET ci == ((k - 1) % 8) + 1
            IN [t |-> IF k % 2 = 0 THEN "XR3" ELSE "R0", f |-> (k <= 8), c |-> AllClasses[ci], n |-> Target(AllClasses[ci])]]
SynNodeIds  == {"A", "B", "XC", "E"}
SynNodeRefs == [nd \in SynNodeIds |-> CASE nd = "A" -> ARefs [] nd = "B" -> BRefs [] nd = "XC" -> CRefs [] OTHER -> <<>>]
SynGhosts   == {"ghost", "ghostns"}            \* unknown node in a known namespace / unknown namespace
SynQueryTypes == {HP, "R0", "R1", "XR2", "XR3", "R4", "XR5", "RU", HS}      \* XR5 exists from phase 1 on
\* class masks of the queries (0 = {} = all)
SynMasksQ   == {{}, {1}, {2}, {4}, {8, 16}, {32, 64, 128}, {1, 2}, {2, 4, 64}}
SynMasksT   == SynMasksQ \cup {{8}, {16}, {32}, {64}, {128}, {1, 4}, {8, 16, 32}, {1, 2, 4, 8, 16, 32, 64, 128}}
SynMasksDyn == {{}, {1}, {2, 16}, {4, 32, 64}}
SynNoGhosts == {}

---------------------------------------------------------------------------
(***************************************************************************)
(* The address space changes while the server runs (server API: AddNode,   *)
(* Node.AddRef).  AddSubtype / AddRef are the specification's actions for  *)
(* that; phase p is the space after the first p groups of additions.  A    *)
(* browse in phase p must reflect the node's references and the reference  *)
(* type hierarchy *at that time* (the same queries are asked in every      *)
(* phase, so anything the server remembered from an earlier phase is       *)
(* stale).  The contract and the filter loop are checked by TLC on every   *)
(* phase's space; the harness applies the additions of the SPACE row of    *)
(* phase p through the server API before replaying the rows of phase p.    *)
(***************************************************************************)
CONSTANT Phase

Space0 == [types |-> SynTypeIds, child |-> SynChildSeq, refs |-> SynNodeRefs]
AddSubtype(sp, parent, child) ==
   LET ts == sp.types \cup {child}
   IN [types |-> ts,
       child |-> [t \in ts |-> IF t = parent THEN Append(sp.child[parent], child)
                               ELSE IF t \in sp.types THEN sp.child[t] ELSE <<>>],
       refs  |-> sp.refs]
AddRef(sp, nd, r) == [sp EXCEPT !.refs[nd] = Append(@, r)]

NoRef == [t |-> "", f |-> TRUE, c |-> 0, n |-> ""]
Sub(parent, child) == [kind |-> "subtype", parent |-> parent, child |-> child, node |-> "", ref |-> NoRef]
Ref(nd, r)         == [kind |-> "ref", parent |-> "", child |-> "", node |-> nd, ref |-> r]
\* a client reads the attributes (NodeClass, BrowseName, DisplayName, Description, Value, ...) of a node:
\* reading changes nothing
Read(nd)           == [kind |-> "read", parent |-> "", child |-> "", node |-> nd, ref |-> NoRef]
ReadAll == << Read("TObj"), Read("XTVar"), Read("TMeth"), Read("XTOType"), Read("TVType"), Read("XTRType"),
              Read("TDType"), Read("XTView"), Read("A"), Read("B"), Read("XC"), Read("E"),
              Read("R0"), Read("R1"), Read("XR2"), Read("XR3"), Read("R4") >>
Adds == << \* phase 1: clients read everything; a new reference type XR5 (ns2) below R1 (ns1) and a first
           \* reference of that type; references of a namespace-0 type (added with Node.AddRef, which
           \* takes the class from the target node) to targets of several classes
           ReadAll \o
           << Sub("R1", "XR5"),
              Ref("B", [t |-> "XR5", f |-> TRUE, c |-> 1, n |-> "TObj"]),
              Ref("B", [t |-> HP, f |-> TRUE,  c |-> 4,  n |-> "TMeth"]),
              Ref("E", [t |-> HP, f |-> TRUE,  c |-> 2,  n |-> "XTVar"]),
              Ref("XC", [t |-> HP, f |-> FALSE, c |-> 16, n |-> "TVType"]) >>,
           \* phase 2: the existing type R4 (ns1) becomes a subtype of XR2 (ns2); more references
           ReadAll \o
           << Sub("XR2", "R4"),
              Ref("E", [t |-> "XR3", f |-> TRUE, c |-> 2, n |-> "XTVar"]),
              Ref("A", [t |-> "XR5", f |-> FALSE, c |-> 4, n |-> "TMeth"]),
              Ref("E", [t |-> HP, f |-> FALSE, c |-> 32, n |-> "XTRType"]),
              Ref("A", [t |-> HP, f |-> TRUE,  c |-> 64, n |-> "TDType"]) >> >>
Apply(sp, a) == CASE a.kind = "subtype" -> AddSubtype(sp, a.parent, a.child)
                  [] a.kind = "ref"     -> AddRef(sp, a.node, a.ref)
                  [] OTHER              -> sp
RECURSIVE ApplyAll(_, _)
ApplyAll(sp, as) == IF as = <<>> THEN sp ELSE ApplyAll(Apply(sp, Head(as)), Tail(as))
RECURSIVE SpaceAt(_)
Changes(p) == SelectSeq(Adds[p], LAMBDA a : a.kind # "read")
SpaceAt(p) == IF p = 0 THEN Space0 ELSE ApplyAll(SpaceAt(p - 1), Changes(p))
PhTypeIds  == SpaceAt(Phase).types
PhChildSeq == SpaceAt(Phase).child
PhNodeRefs == SpaceAt(Phase).refs

SpaceRow == [kind |-> "space", phase |-> Phase,
             adds |-> IF Phase = 0 THEN <<>> ELSE Adds[Phase],
             types |-> [t \in PhTypeIds |-> PhChildSeq[t]],
             nodes |-> PhNodeRefs,
             targets |-> [c \in {1, 2, 4, 8, 16, 32, 64, 128} |-> Target(c)]]
ASSUME Emit => PrintT("ROW " \o ToJson(SpaceRow))
=============================================================================
