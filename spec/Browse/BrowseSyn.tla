----------------------------- MODULE BrowseSyn -----------------------------
(***************************************************************************)
(* Synthetic address space for C33: a small reference type hierarchy       *)
(*                                                                         *)
(*        R0                R4 (unrelated)      RU (id without a node)     *)
(*       /  \                                                              *)
(*      R1   R2                                                            *)
(*      |     \                                                            *)
(*      R3    i=45 (the real HasSubtype type, hung below R2 so that both   *)
(*                  branches of the deletion loop are reachable:          *)
(*                  position 0 in Dfs(R2), position 3 in Dfs(R0))          *)
(*                                                                         *)
(* and three browsable nodes: A carries every (type, direction, class)     *)
(* combination once, B a few references with duplicates, E none.  The Go   *)
(* harness builds exactly this space in the real server from the SPACE row *)
(* printed below.                                                          *)
(***************************************************************************)
EXTENDS Browse

HS == "i=45"
SynTypeIds  == {"R0", "R1", "R2", "R3", "R4", HS}
SynChildSeq == [t \in SynTypeIds |->
                  CASE t = "R0" -> <<"R1", "R2">>
                    [] t = "R1" -> <<"R3">>
                    [] t = "R2" -> <<HS>>
                    [] OTHER    -> <<>>]
SynRefTypes == <<"R0", "R1", "R2", "R3", "R4", "RU">>       \* types used on references
SynClasses  == <<1, 2, 4>>                                   \* Object, Variable, Method
Target(c)   == CASE c = 1 -> "TObj" [] c = 2 -> "TVar" [] c = 4 -> "TMeth"

\* A: cross product, 6 types x 2 directions x 3 classes = 36 references
ARefs == [k \in 1..36 |->
            LET ti == ((k - 1) \div 6) + 1
                fi == ((k - 1) \div 3) % 2
                ci == ((k - 1) % 3) + 1
            IN [t |-> SynRefTypes[ti], f |-> (fi = 0), c |-> SynClasses[ci], n |-> Target(SynClasses[ci])]]
BRefs == << [t |-> "R3", f |-> TRUE,  c |-> 2, n |-> "TVar"],
            [t |-> "R3", f |-> TRUE,  c |-> 2, n |-> "TVar"],      \* duplicate reference
            [t |-> "R2", f |-> FALSE, c |-> 1, n |-> "TObj"],
            [t |-> HS,   f |-> TRUE,  c |-> 1, n |-> "TObj"],
            [t |-> "R0", f |-> TRUE,  c |-> 4, n |-> "TMeth"],
            [t |-> "R1", f |-> TRUE,  c |-> 1, n |-> "TNone"],     \* target node does not exist
            [t |-> "R1", f |-> FALSE, c |-> 2, n |-> "TNone"] >>
SynNodeIds  == {"A", "B", "E"}
SynNodeRefs == [nd \in SynNodeIds |-> CASE nd = "A" -> ARefs [] nd = "B" -> BRefs [] OTHER -> <<>>]
SynGhosts   == {"ghost", "ghostns"}            \* unknown node in a known namespace / unknown namespace
SynQueryTypes == {"R0", "R1", "R2", "R3", "R4", "R5", "RU", HS}      \* R5 exists from phase 1 on
SynClassBits  == {1, 2, 4, 8}

---------------------------------------------------------------------------
(***************************************************************************)
(* The address space changes while the server runs (server API: AddNode,   *)
(* Node.AddRef).  AddSubtype / AddRef are the specification's actions for  *)
(* that; phase p is the space after the first p groups of additions.  A    *)
(* browse in phase p must reflect the node's references and the reference  *)
(* type hierarchy *at that time* (the same queries are asked in every      *)
(* phase, so anything the server remembered from an earlier phase is       *)
(* stale).  The contract and the filter loop are checked by TLC on every   *)
(* phase's space; the harness applies the additions of the SPACE row of    *)
(* phase p through the server API before replaying the rows of phase p.    *)
(***************************************************************************)
CONSTANT Phase

Space0 == [types |-> SynTypeIds, child |-> SynChildSeq, refs |-> SynNodeRefs]
AddSubtype(sp, parent, child) ==
   LET ts == sp.types \cup {child}
   IN [types |-> ts,
       child |-> [t \in ts |-> IF t = parent THEN Append(sp.child[parent], child)
                               ELSE IF t \in sp.types THEN sp.child[t] ELSE <<>>],
       refs  |-> sp.refs]
AddRef(sp, nd, r) == [sp EXCEPT !.refs[nd] = Append(@, r)]

NoRef == [t |-> "", f |-> TRUE, c |-> 0, n |-> ""]
Sub(parent, child) == [kind |-> "subtype", parent |-> parent, child |-> child, node |-> "", ref |-> NoRef]
Ref(nd, r)         == [kind |-> "ref", parent |-> "", child |-> "", node |-> nd, ref |-> r]
Adds == << \* phase 1: a new reference type R5 below R1 (R0 > R1 > R5) and a first reference of that type
           << Sub("R1", "R5"),
              Ref("B", [t |-> "R5", f |-> TRUE, c |-> 1, n |-> "TObj"]) >>,
           \* phase 2: the existing type R4 becomes a subtype of R2; E gets its first reference; A one of type R5
           << Sub("R2", "R4"),
              Ref("E", [t |-> "R3", f |-> TRUE, c |-> 2, n |-> "TVar"]),
              Ref("A", [t |-> "R5", f |-> FALSE, c |-> 4, n |-> "TMeth"]) >> >>
Apply(sp, a) == IF a.kind = "subtype" THEN AddSubtype(sp, a.parent, a.child) ELSE AddRef(sp, a.node, a.ref)
RECURSIVE ApplyAll(_, _)
ApplyAll(sp, as) == IF as = <<>> THEN sp ELSE ApplyAll(Apply(sp, Head(as)), Tail(as))
RECURSIVE SpaceAt(_)
SpaceAt(p) == IF p = 0 THEN Space0 ELSE ApplyAll(SpaceAt(p - 1), Adds[p])
PhTypeIds  == SpaceAt(Phase).types
PhChildSeq == SpaceAt(Phase).child
PhNodeRefs == SpaceAt(Phase).refs

SpaceRow == [kind |-> "space", phase |-> Phase,
             adds |-> IF Phase = 0 THEN <<>> ELSE Adds[Phase],
             types |-> [t \in PhTypeIds |-> PhChildSeq[t]],
             nodes |-> PhNodeRefs,
             targets |-> [c \in {1, 2, 4} |-> Target(c)]]
ASSUME Emit => PrintT("ROW " \o ToJson(SpaceRow))
=============================================================================
