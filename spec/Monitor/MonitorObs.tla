----------------------------- MODULE MonitorObs -----------------------------
(***************************************************************************)
(* C28 -- what an application that uses monitor.NodeMonitor may observe.   *)
(* Values are tagged: the value written to node n by its k-th write is     *)
(* <<n, k>> (k = 0: initial value).  The observer state o records, per     *)
(* node, the highest write called (written) and returned (acked), the last *)
(* counter delivered (last, -1 = nothing yet), the nodes currently         *)
(* monitored (mon) and ever monitored (ever).                              *)
(* The predicates below are the contract; Monitor.tla (the pipeline as     *)
(* written) is checked against them by TLC, and MonitorTrace.tla checks a  *)
(* recorded trace of the real code against the same predicates.            *)
(***************************************************************************)
EXTENDS Integers

ObsInit(Nodes) == [written |-> [n \in Nodes |-> 0], acked |-> [n \in Nodes |-> 0],
                   last |-> [n \in Nodes |-> -1], mon |-> {}, ever |-> {}, q |-> FALSE]

\* a delivered data change names node n and carries the value <<vn, k>>
NodeOK(o, n, vn)   == vn = n /\ n \in o.ever   \* the node registered for the handle, and really that node's value
NoFuture(o, n, k)  == k <= o.written[n]        \* no value before its write was called
Monotone(o, n, k)  == k >= o.last[n]           \* per node never back to an older value
NotifyOK(o, n, vn, k) == NodeOK(o, n, vn) /\ NoFuture(o, n, k) /\ Monotone(o, n, k)

OnWCall(o, n, k)  == [o EXCEPT !.written[n] = k]
OnWRet(o, n, k)   == [o EXCEPT !.acked[n] = k]
OnNotify(o, n, k) == [o EXCEPT !.last[n] = k]
OnAdd(o, n)       == [o EXCEPT !.mon = @ \cup {n}, !.ever = @ \cup {n}]
OnRemove(o, n)    == [o EXCEPT !.mon = @ \ {n}]
OnQuiesce(o)      == [o EXCEPT !.q = TRUE]

\* after writes stopped and the pipeline drained, a read of node n returns <<vn, k>>:
\* it is the last acknowledged write, and for a monitored node it is the last value delivered
FinalValueOK(o, n, vn, k) == vn = n /\ k = o.acked[n] /\ k = o.written[n]
ConvergedOK(o, n, k)      == n \in o.mon => o.last[n] = k
=============================================================================
