------------------------------- MODULE Monitor -------------------------------
(***************************************************************************)
(* C28 -- the notification pipeline as written, one action per step:       *)
(*                                                                         *)
(*  WCall/WApply/WRet  a writer client; WApply is the dispatcher running   *)
(*            AttributeService.Write -> NodeNameSpace.SetAttribute ->      *)
(*            MonitoredItemService.ChangeNotification: under Mu, for every *)
(*            item on the node, read the current value and send            *)
(*            [ClientHandle, value] on Subscription.NotifyChannel          *)
(*  Add       monitor.Subscription.AddMonitorItems: handle :=              *)
(*            ++nextClientHandle; handles[handle] := node; server          *)
(*            CreateMonitoredItems registers the item and starts           *)
(*            `go ChangeNotification(node)` (InitNotify)                   *)
(*  Remove    RemoveMonitorItems: delete handles[handle]; server           *)
(*            DeleteMonitoredItems -> `go DeleteMonitoredItem` (SrvDelete) *)
(*  Collect   Subscription.run: publishQueue[ClientHandle] := notification *)
(*  Publish   Subscription.run: tick + publish request -> one              *)
(*            DataChangeNotification with the queue content                *)
(*  Deliver   monitor pump: handles[ClientHandle] -> DataChangeMessage     *)
(*            {NodeID, DataValue} (or "handle not found")                  *)
(*  Quiesce / FinalRead   writes stop, pipeline drains, values are read    *)
(*                                                                         *)
(* Properties: InvNotifyNode, InvNoFuture, InvMonotone (every delivery     *)
(* satisfies MonitorObs!NotifyOK), InvFinalValue, ConvergesToLatest.       *)
(* Deviations: Dev_HandleReuse (handle counter reused after a removal),    *)
(* Dev_KeepOld (publish queue keeps the older notification of a handle),   *)
(* Dev_SplitNotify (ChangeNotification reads the value and sends outside   *)
(* the lock: a stale notification can overtake a newer one).               *)
(***************************************************************************)
EXTENDS Integers, Sequences, FiniteSets, TLC

CONSTANTS Nodes, MaxK, MaxH, MaxCh, Dev_HandleReuse, Dev_KeepOld, Dev_SplitNotify

VARIABLES val,      \* val[n]: counter of the current value of node n
          wr,       \* wr[n]: [phase |-> "idle"|"called"|"applied", k]
          handles,  \* monitor: set of [h, n]
          nextH,    \* monitor: nextClientHandle
          items,    \* server: set of [h, n]
          pendInit, \* nodes with a pending initial ChangeNotification goroutine
          sampled,  \* deviation only: [n, k] read by a ChangeNotification goroutine that has not sent yet
          delItems, \* items whose asynchronous deletion is pending
          nch,      \* NotifyChannel (FIFO of [h, vn, k])
          pq,       \* publishQueue: set of [h, vn, k], at most one per h
          wire,     \* publish responses on their way / being pumped: sequence of sets
          o,        \* observer (MonitorObs)
          bad,      \* "" or the name of the first contract predicate a delivery / final read broke
          final     \* nodes already read after quiescence

vars == <<val, wr, handles, nextH, items, pendInit, sampled, delItems, nch, pq, wire, o, bad, final>>

Obs == INSTANCE MonitorObs

Init ==
    /\ val = [n \in Nodes |-> 0]
    /\ wr = [n \in Nodes |-> [phase |-> "idle", k |-> 0]]
    /\ handles = {} /\ nextH = 0 /\ items = {} /\ pendInit = {} /\ sampled = {} /\ delItems = {}
    /\ nch = <<>> /\ pq = {} /\ wire = <<>>
    /\ o = Obs!ObsInit(Nodes) /\ bad = "" /\ final = {}

ItemsOn(n) == {it \in items : it.n = n}
\* ChangeNotification(n) under Mu: one notification per item on the node, current value
\* (slice order of the items; one fixed order is enough for the properties)
RECURSIVE NotifSeq(_, _, _)
NotifSeq(T, n, k) == IF T = {} THEN <<>>
                     ELSE LET x == CHOOSE y \in T : TRUE
                          IN <<[h |-> x.h, vn |-> n, k |-> k]>> \o NotifSeq(T \ {x}, n, k)
Notifs(n, k) == NotifSeq(ItemsOn(n), n, k)

WCall(n) ==
    /\ ~o.q /\ wr[n].phase = "idle" /\ wr[n].k < MaxK
    /\ wr' = [wr EXCEPT ![n] = [phase |-> "called", k |-> wr[n].k + 1]]
    /\ o' = Obs!OnWCall(o, n, wr[n].k + 1)
    /\ UNCHANGED <<val, handles, nextH, items, pendInit, sampled, delItems, nch, pq, wire, bad, final>>

WApply(n) ==
    /\ wr[n].phase = "called"
    /\ val' = [val EXCEPT ![n] = wr[n].k]
    /\ nch' = nch \o Notifs(n, wr[n].k)
    /\ wr' = [wr EXCEPT ![n].phase = "applied"]
    /\ UNCHANGED <<handles, nextH, items, pendInit, sampled, delItems, pq, wire, o, bad, final>>

WRet(n) ==
    /\ wr[n].phase = "applied"
    /\ wr' = [wr EXCEPT ![n].phase = "idle"]
    /\ o' = Obs!OnWRet(o, n, wr[n].k)
    /\ UNCHANGED <<val, handles, nextH, items, pendInit, sampled, delItems, nch, pq, wire, bad, final>>

FreeHandles == (1..MaxH) \ {x.h : x \in handles}
Add(n) ==
    /\ ~o.q /\ n \notin o.mon
    /\ LET h == IF Dev_HandleReuse THEN (IF FreeHandles = {} THEN MaxH + 1 ELSE CHOOSE x \in FreeHandles : \A y \in FreeHandles : x <= y)
                ELSE nextH + 1
       IN /\ h <= MaxH
          /\ nextH' = IF h > nextH THEN h ELSE nextH
          /\ handles' = handles \cup {[h |-> h, n |-> n]}
          /\ items' = items \cup {[h |-> h, n |-> n]}
    /\ pendInit' = pendInit \cup {n}
    /\ o' = Obs!OnAdd(o, n)
    /\ UNCHANGED <<val, wr, sampled, delItems, nch, pq, wire, bad, final>>

\* ChangeNotification on its own goroutine (initial value after CreateMonitoredItems, or an
\* application announcing a change): under Mu, reading the value and sending are one step.
InitNotify(n) ==
    /\ ~Dev_SplitNotify
    /\ n \in pendInit
    /\ nch' = nch \o Notifs(n, val[n])
    /\ pendInit' = pendInit \ {n}
    /\ UNCHANGED <<val, wr, handles, nextH, items, sampled, delItems, pq, wire, o, bad, final>>

\* deviation: the lock is released after the item lookup; reading the value and sending are
\* two steps and a notification of the dispatcher can get in between
InitSample(n) ==
    /\ Dev_SplitNotify /\ n \in pendInit
    /\ sampled' = sampled \cup {[n |-> n, k |-> val[n]]}
    /\ pendInit' = pendInit \ {n}
    /\ UNCHANGED <<val, wr, handles, nextH, items, delItems, nch, pq, wire, o, bad, final>>

InitSend(x) ==
    /\ Dev_SplitNotify /\ x \in sampled
    /\ nch' = nch \o Notifs(x.n, x.k)
    /\ sampled' = sampled \ {x}
    /\ UNCHANGED <<val, wr, handles, nextH, items, pendInit, delItems, pq, wire, o, bad, final>>

Remove(n) ==
    /\ ~o.q /\ n \in o.mon
    /\ LET hs == {x \in handles : x.n = n} IN
        /\ handles' = handles \ hs
        /\ delItems' = delItems \cup hs
    /\ o' = Obs!OnRemove(o, n)
    /\ UNCHANGED <<val, wr, nextH, items, pendInit, sampled, nch, pq, wire, bad, final>>

SrvDelete(it) ==
    /\ it \in delItems
    /\ items' = items \ {it} /\ delItems' = delItems \ {it}
    /\ UNCHANGED <<val, wr, handles, nextH, pendInit, sampled, nch, pq, wire, o, bad, final>>

Collect ==
    /\ nch # <<>>
    /\ LET e == Head(nch)
           old == {x \in pq : x.h = e.h}
       IN pq' = IF Dev_KeepOld /\ old # {} THEN pq ELSE (pq \ old) \cup {e}
    /\ nch' = Tail(nch)
    /\ UNCHANGED <<val, wr, handles, nextH, items, pendInit, sampled, delItems, wire, o, bad, final>>

Publish ==
    /\ pq # {}
    /\ wire' = Append(wire, pq) /\ pq' = {}
    /\ UNCHANGED <<val, wr, handles, nextH, items, pendInit, sampled, delItems, nch, o, bad, final>>

Deliver ==
    /\ wire # <<>>
    /\ \E e \in Head(wire) :
        /\ wire' = IF Head(wire) = {e} THEN Tail(wire) ELSE <<Head(wire) \ {e}>> \o Tail(wire)
        /\ LET reg == {x \in handles : x.h = e.h} IN
           IF reg = {} THEN UNCHANGED <<o, bad>>    \* "handle not found": an error message, not a data change
           ELSE LET n == (CHOOSE x \in reg : TRUE).n IN
                /\ o' = Obs!OnNotify(o, n, e.k)
                /\ bad' = IF bad # "" THEN bad
                          ELSE IF ~Obs!NodeOK(o, n, e.vn) THEN "node"
                          ELSE IF ~Obs!NoFuture(o, n, e.k) THEN "future"
                          ELSE IF ~Obs!Monotone(o, n, e.k) THEN "monotone" ELSE ""
    /\ UNCHANGED <<val, wr, handles, nextH, items, pendInit, sampled, delItems, nch, pq, final>>

Quiesce ==
    /\ ~o.q /\ \A n \in Nodes : wr[n].phase = "idle"
    /\ o' = Obs!OnQuiesce(o)
    /\ UNCHANGED <<val, wr, handles, nextH, items, pendInit, sampled, delItems, nch, pq, wire, bad, final>>

Drained == pendInit = {} /\ sampled = {} /\ nch = <<>> /\ pq = {} /\ wire = <<>>

FinalRead(n) ==
    /\ o.q /\ Drained /\ n \notin final
    /\ final' = final \cup {n}
    /\ bad' = IF bad # "" THEN bad
              ELSE IF ~Obs!FinalValueOK(o, n, n, val[n]) THEN "finalvalue"
              ELSE IF ~Obs!ConvergedOK(o, n, val[n]) THEN "converge" ELSE ""
    /\ UNCHANGED <<val, wr, handles, nextH, items, pendInit, sampled, delItems, nch, pq, wire, o>>

Next ==
    \/ \E n \in Nodes : WCall(n) \/ WApply(n) \/ WRet(n) \/ Add(n) \/ Remove(n) \/ InitNotify(n) \/ FinalRead(n)
    \/ \E it \in delItems : SrvDelete(it)
    \/ \E n \in Nodes : InitSample(n)
    \/ \E x \in sampled : InitSend(x)
    \/ Collect \/ Publish \/ Deliver \/ Quiesce

Spec == Init /\ [][Next]_vars

Bound == Len(nch) <= MaxCh /\ Len(wire) <= MaxCh

TypeOK == /\ \A n \in Nodes : val[n] \in 0..MaxK /\ wr[n].phase \in {"idle", "called", "applied"}
          /\ \A x \in pq : \A y \in pq : x.h = y.h => x = y
          /\ nextH \in 0..MaxH

InvNotifyNode     == bad # "node"
InvNoFuture       == bad # "future"
InvMonotone       == bad # "monotone"
InvFinalValue     == bad # "finalvalue"
ConvergesToLatest == bad # "converge"
\* handles are never reused while an old notification may still be around
InvHandlesFresh   == \A x \in handles : \A e \in pq : e.h = x.h => e.vn = x.n
=============================================================================
