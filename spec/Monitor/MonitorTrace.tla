---------------------------- MODULE MonitorTrace ----------------------------
(***************************************************************************)
(* C28 -- trace validation.  The harness (cmd/monitor) drives               *)
(* monitor.NodeMonitor against the real server and logs, stamped by one    *)
(* sequencer (atomic counter; wcall/add/remove are logged BEFORE the call, *)
(* wret after the return, notify inside the callback):                     *)
(*   {"ev":"wcall","n":node,"k":counter}   {"ev":"wret","n":node,"k":k}    *)
(*   {"ev":"add","n":node}                 {"ev":"remove","n":node}        *)
(*   {"ev":"notify","n":msg.NodeID,"vn":node tag of the value,"k":counter} *)
(*   {"ev":"quiesce"}  {"ev":"final","n":node,"vn":tag,"k":counter}        *)
(*   {"ev":"reset"}    next trace                                          *)
(* Every event must satisfy the contract predicates of MonitorObs in the   *)
(* observer state reached so far; the trace is accepted iff all events are *)
(* consumed and InvTraceOK holds (no silent steps: the observer is         *)
(* deterministic).  `bad` names the first event that breaks the contract   *)
(* and the predicate it breaks.                                            *)
(***************************************************************************)
EXTENDS MonitorObs, Sequences, Json, TLC

CONSTANT Nodes
Log == ndJsonDeserialize("trace.ndjson")

VARIABLES o, l, bad     \* bad: "" or [at |-> index of the first event that breaks the contract, why |-> predicate]
tvars == <<o, l, bad>>

More == l <= Len(Log)
IsEvent(e) == More /\ Log[l].ev = e /\ l' = l + 1
E == Log[l]

NoBad == [at |-> 0, why |-> ""]
TInit == o = ObsInit(Nodes) /\ l = 1 /\ bad = NoBad

Why(n, vn, k) == IF ~NodeOK(o, n, vn) THEN "node" ELSE IF ~NoFuture(o, n, k) THEN "future"
                 ELSE IF ~Monotone(o, n, k) THEN "monotone" ELSE ""
FWhy(n, vn, k) == IF ~FinalValueOK(o, n, vn, k) THEN "finalvalue" ELSE IF ~ConvergedOK(o, n, k) THEN "converge" ELSE ""
Mark(w) == bad' = IF bad = NoBad /\ w # "" THEN [at |-> l, why |-> w] ELSE bad

\* structural events (a mismatch here is a harness problem, the trace gets stuck: inconclusive)
TWCall  == IsEvent("wcall") /\ ~o.q /\ E.k = o.written[E.n] + 1 /\ o' = OnWCall(o, E.n, E.k) /\ UNCHANGED bad
TWRet   == IsEvent("wret") /\ E.k = o.written[E.n] /\ o' = OnWRet(o, E.n, E.k) /\ UNCHANGED bad
TAdd    == IsEvent("add") /\ o' = OnAdd(o, E.n) /\ UNCHANGED bad
TRemove == IsEvent("remove") /\ o' = OnRemove(o, E.n) /\ UNCHANGED bad
TQuiesce == IsEvent("quiesce") /\ o' = OnQuiesce(o) /\ UNCHANGED bad
TReset  == IsEvent("reset") /\ o' = ObsInit(Nodes) /\ UNCHANGED bad
\* observations of the code under test: checked against the contract (InvTraceOK)
TNotify == IsEvent("notify") /\ Mark(Why(E.n, E.vn, E.k)) /\ o' = OnNotify(o, E.n, E.k)
TFinal  == IsEvent("final") /\ o.q /\ Mark(FWhy(E.n, E.vn, E.k)) /\ UNCHANGED o

InvTraceOK == bad = NoBad

TNext == TWCall \/ TWRet \/ TAdd \/ TRemove \/ TNotify \/ TQuiesce \/ TFinal \/ TReset
TSpec == TInit /\ [][TNext]_tvars

\* the observer is deterministic: the only terminal state is the end of the log or the refused event
Accepted == IF TLCGet("distinct") = Len(Log) + 1 THEN TRUE
            ELSE PrintT("STUCK " \o ToString(TLCGet("distinct"))) /\ FALSE
=============================================================================
