CONSTANTS
  Nodes = {"n1", "n2", "n3"}
SPECIFICATION TSpec
INVARIANT InvTraceOK
POSTCONDITION Accepted
CHECK_DEADLOCK FALSE
