CONSTANTS
  Nodes = {"n1", "n2"}
  MaxK = 1
  MaxH = 2
  MaxCh = 1
  Dev_HandleReuse = FALSE
  Dev_SplitNotify = TRUE
  Dev_KeepOld = FALSE
SPECIFICATION Spec
CONSTRAINT Bound
INVARIANTS TypeOK InvNotifyNode InvNoFuture InvMonotone InvFinalValue ConvergesToLatest InvHandlesFresh
CHECK_DEADLOCK FALSE
