CONSTANTS
  Dev_NoLenGuard = {"sub.Monitor", "monitor.Subscribe", "monitor.AddMonitorItems", "sub.ModifyMonitoredItems", "monitor.ModifyMonitorItems", "sub.Cancel", "monitor.Unsubscribe", "node.References", "node.References.next", "node.Children"}
  Dev_NoTypeGuard = {"node.BrowseName", "node.Description", "node.DisplayName", "node.AccessLevel", "node.UserAccessLevel"}
  Emit = TRUE
INIT Init
NEXT Next
INVARIANT InvFunction
INVARIANT InvEmit
CHECK_DEADLOCK FALSE
