CONSTANTS
  Dev_NoLenGuard = {}
  Dev_NoTypeGuard = {}
  Emit = FALSE
INIT Init
NEXT Next
INVARIANT InvNoPanic
INVARIANT InvReturns
INVARIANT InvErrorOnBadResponse
INVARIANT InvFunction
CHECK_DEADLOCK FALSE
