------------------------------ MODULE ClientOp ------------------------------
(***************************************************************************)
(* C21 -- client calls never panic on any well-formed server response.     *)
(*                                                                         *)
(* Every client operation is the same small pipeline (client.go Send ->    *)
(* uasc sendRequestWithTimeout -> response handler -> result use):         *)
(*                                                                         *)
(*   Recv       the response arrives; a bad service result (ServiceFault   *)
(*              or bad status in an expected response) becomes the error   *)
(*   TypeCheck  safeAssign: a response of another type is an error         *)
(*   LenGuard   operations that index the result array compare its length *)
(*              with what they are going to index                          *)
(*   Index      Results[0] / Results[i] for every request item /           *)
(*              Request[i] for every result                                *)
(*   TypeGuard  operations that use the Variant value as a concrete type   *)
(*   Use        the type assertion                                         *)
(*   Return     value or error to the caller                               *)
(*                                                                         *)
(* An operation is a row of the table Ops (which service answers it, how   *)
(* many request items, how results are indexed, whether the value is       *)
(* asserted).  A response shape is (type, status, result count relative to *)
(* the request, Variant class, extras).  TLC enumerates Ops x Shapes, one  *)
(* run per pair; the contract (all guards present) never panics and always *)
(* returns; the deviation sets name operations whose guard is missing:     *)
(* with the sets the code had before commit aacaf02 (ClientOp_dev_*.cfg)    *)
(* TLC finds exactly the 46 panicking pairs the real client showed; since  *)
(* that repair the as-is model is the contract (both sets empty).          *)
(* Every initial state is one replay case for the real client against a    *)
(* scripted server.                                                        *)
(***************************************************************************)
EXTENDS Naturals, Sequences, FiniteSets, TLC, Json

CONSTANTS Dev_NoLenGuard,    \* names of operations that index without a length check
          Dev_NoTypeGuard,   \* names of operations that assert the value type unchecked
          Emit               \* TRUE: print one row per initial state

\* idx: "none" | "first" (Results[0]) | "all" (Results[i], i < n) | "each" (Request[i] for each result)
\* val: TRUE when the operation needs the Variant to hold one concrete Go type
\* exact: the operation also compares the result count with the request (error when different)
\* ck: a bad per-item status is returned as the error;  bg: background operation (publish loop): nothing is
\* returned to a caller, "value" means the loop goes on
Op(name, svc, n, idx, val, exact, ck, bg) ==
  [name |-> name, svc |-> svc, n |-> n, idx |-> idx, val |-> val, exact |-> exact, ck |-> ck, bg |-> bg]
Ops == {
  Op("connect.create",    "CreateSession",         0, "none",  FALSE, FALSE, FALSE, FALSE),
  Op("connect.activate",  "ActivateSession",       0, "none",  FALSE, FALSE, FALSE, FALSE),
  Op("connect.nsread",    "Read",                  1, "first", TRUE, FALSE, TRUE, FALSE),    \* NamespaceArray at the end of Connect
  Op("client.Read",       "Read",                  2, "none",  FALSE, FALSE, FALSE, FALSE),
  Op("client.Write",      "Write",                 2, "none",  FALSE, FALSE, FALSE, FALSE),
  Op("client.Browse",     "Browse",                2, "none",  FALSE, FALSE, FALSE, FALSE),
  Op("client.BrowseNext", "BrowseNext",            1, "none",  FALSE, FALSE, FALSE, FALSE),
  Op("client.Call",       "Call",                  1, "first", FALSE, TRUE, FALSE, FALSE),
  Op("client.NamespaceArray", "Read",              1, "first", TRUE, FALSE, TRUE, FALSE),
  Op("client.RegisterNodes", "RegisterNodes",      2, "none",  FALSE, FALSE, FALSE, FALSE),
  Op("client.HistoryReadRawModified", "HistoryRead", 1, "none", FALSE, FALSE, FALSE, FALSE),
  Op("node.NodeClass",    "Read",                  1, "first", FALSE, FALSE, TRUE, FALSE),
  Op("node.BrowseName",   "Read",                  1, "first", TRUE, FALSE, TRUE, FALSE),
  Op("node.Description",  "Read",                  1, "first", TRUE, FALSE, TRUE, FALSE),
  Op("node.DisplayName",  "Read",                  1, "first", TRUE, FALSE, TRUE, FALSE),
  Op("node.AccessLevel",  "Read",                  1, "first", TRUE, FALSE, TRUE, FALSE),
  Op("node.UserAccessLevel", "Read",               1, "first", TRUE, FALSE, TRUE, FALSE),
  Op("node.Value",        "Read",                  1, "first", FALSE, FALSE, TRUE, FALSE),
  Op("node.Attributes",   "Read",                  2, "none",  FALSE, FALSE, FALSE, FALSE),
  Op("node.References",   "Browse",                1, "first", FALSE, FALSE, FALSE, FALSE),
  Op("node.References.next", "BrowseNext",         1, "first", FALSE, FALSE, FALSE, FALSE),  \* Browse answered with a continuation point
  Op("node.Children",     "Browse",                1, "first", FALSE, FALSE, FALSE, FALSE),
  Op("node.TranslateBrowsePathsToNodeIDs", "TranslateBrowsePaths", 1, "first", FALSE, FALSE, TRUE, FALSE),
  Op("client.Subscribe",  "CreateSubscription",    0, "none",  FALSE, FALSE, FALSE, FALSE),
  Op("sub.Monitor",       "CreateMonitoredItems",  2, "all",   FALSE, FALSE, FALSE, FALSE),
  Op("sub.Unmonitor",     "DeleteMonitoredItems",  2, "none",  FALSE, FALSE, FALSE, FALSE),
  Op("sub.ModifyMonitoredItems", "ModifyMonitoredItems", 2, "each", FALSE, FALSE, FALSE, FALSE),
  Op("sub.SetMonitoringMode", "SetMonitoringMode", 2, "none",  FALSE, FALSE, FALSE, FALSE),
  Op("sub.SetTriggering", "SetTriggering",         2, "none",  FALSE, FALSE, FALSE, FALSE),
  Op("sub.ModifySubscription", "ModifySubscription", 0, "none", FALSE, FALSE, FALSE, FALSE),
  Op("sub.Cancel",        "DeleteSubscriptions",   1, "first", FALSE, FALSE, TRUE, FALSE),
  Op("sub.Stats",         "Read",                  1, "first", TRUE, FALSE, TRUE, FALSE),
  Op("monitor.Subscribe", "CreateMonitoredItems",  2, "all",   FALSE, TRUE, TRUE, FALSE),
  Op("monitor.AddMonitorItems", "CreateMonitoredItems", 2, "all", FALSE, TRUE, TRUE, FALSE),
  Op("monitor.RemoveMonitorItems", "DeleteMonitoredItems", 2, "all", FALSE, TRUE, TRUE, FALSE),
  Op("monitor.ModifyMonitorItems", "ModifyMonitoredItems", 2, "each", FALSE, TRUE, TRUE, FALSE),
  Op("monitor.SetMonitoringMode", "SetMonitoringMode", 2, "all", FALSE, TRUE, TRUE, FALSE),
  Op("monitor.Unsubscribe", "DeleteSubscriptions", 1, "first", FALSE, FALSE, TRUE, FALSE),
  Op("publish",           "Publish",               1, "all",   FALSE, FALSE, FALSE, TRUE),   \* n = acknowledgements pending in the request
  Op("publish.monitor",   "Publish",               1, "all",   FALSE, FALSE, FALSE, TRUE)    \* same, delivered through the monitor package
}

RTypes   == {"expected", "other", "fault"}
Statuses == {"good", "bad"}
VTypes   == {"expected", "other", "null", "array"}
\* extras that only some services have
Extras(o) ==
  CASE o.svc = "CreateSubscription" -> {"fresh", "zero"}                  \* subscription id in the response
    [] o.svc = "Publish" -> {"datachange", "event", "statuschange", "unknown", "novalue", "keepalive",
                             "unknownsub", "unknownhandle"}
    [] o.svc \in {"Browse", "BrowseNext"} -> {"plain", "cont"}            \* continuation point present
    [] o.svc = "TranslateBrowsePaths" -> {"target", "notarget"}
    [] OTHER -> {"-"}
Counts(o) == IF o.n = 0 THEN {0} ELSE {0, o.n - 1, o.n, o.n + 1}
Shapes(o) ==
  {[rtype |-> "fault", status |-> "bad", count |-> 0, vt |-> "expected", ist |-> "good", extra |-> "-"],
   [rtype |-> "other", status |-> "good", count |-> 0, vt |-> "expected", ist |-> "good", extra |-> "-"]} \cup
  {[rtype |-> "expected", status |-> "bad", count |-> o.n, vt |-> "expected", ist |-> "good", extra |-> x] : x \in Extras(o)} \cup
  {[rtype |-> "expected", status |-> "good", count |-> c, vt |-> v, ist |-> i, extra |-> x] :
      c \in Counts(o), v \in IF o.val THEN VTypes ELSE {"expected"},
      i \in {"good", "bad"}, x \in Extras(o)}

VARIABLES op, sh, pc, err, out
vars == <<op, sh, pc, err, out>>

Init == /\ op \in Ops
        /\ sh \in Shapes(op)
        /\ (sh.ist = "bad" => sh.count = op.n /\ sh.vt = "expected")      \* item status varied on well-sized answers only
        /\ pc = "recv" /\ err = FALSE /\ out = "none"

\* how many results the code is going to touch, given the answer
Short == CASE op.idx = "first" -> sh.count = 0
           [] op.idx = "all"   -> sh.count < op.n
           [] op.idx = "each"  -> sh.count > op.n
           [] OTHER            -> FALSE
\* a bad item status ends the operation with that status before the value is looked at
ValueUsed == op.val /\ sh.ist = "good"
ValueFits == sh.vt = "expected"

\* what is returned once nothing can panic any more: own count / status / content checks of the operation
Outcome(o, s) == IF o.bg THEN "value"
              ELSE IF o.exact /\ s.count # o.n THEN "error"
              ELSE IF o.ck /\ s.ist = "bad" THEN "error"
              ELSE IF s.extra \in {"zero", "notarget"} THEN "error"
              ELSE "value"

Recv      == /\ pc = "recv"
             /\ err' = (sh.rtype = "fault" \/ sh.status = "bad")
             /\ pc' = "typecheck" /\ UNCHANGED <<op, sh, out>>
TypeCheck == /\ pc = "typecheck"
             /\ IF err \/ sh.rtype # "expected"
                THEN pc' = "done" /\ out' = IF op.bg THEN "value" ELSE "error"   \* msg.Err takes precedence; safeAssign error otherwise
                ELSE pc' = "lenguard" /\ out' = out
             /\ UNCHANGED <<op, sh, err>>
\* operations whose guard skips what is missing instead of failing (the raw response goes to the caller)
Soft == {"sub.Monitor", "sub.ModifyMonitoredItems", "monitor.Subscribe", "monitor.AddMonitorItems",
         "monitor.ModifyMonitorItems"}
LenGuard  == /\ pc = "lenguard"
             /\ IF op.idx # "none" /\ op.name \notin Dev_NoLenGuard /\ Short
                THEN IF op.name \in Soft THEN pc' = "typeguard" /\ out' = out
                                        ELSE pc' = "done" /\ out' = "error"
                ELSE pc' = "index" /\ out' = out
             /\ UNCHANGED <<op, sh, err>>
Index     == /\ pc = "index"
             /\ IF op.idx # "none" /\ Short
                THEN pc' = "done" /\ out' = "panic"           \* index out of range
                ELSE pc' = "typeguard" /\ out' = out
             /\ UNCHANGED <<op, sh, err>>
TypeGuard == /\ pc = "typeguard"
             /\ IF ValueUsed /\ op.name \notin Dev_NoTypeGuard /\ ~ValueFits
                THEN pc' = "done" /\ out' = "error"
                ELSE pc' = "use" /\ out' = out
             /\ UNCHANGED <<op, sh, err>>
Use       == /\ pc = "use"
             /\ IF ValueUsed /\ ~ValueFits
                THEN out' = "panic"                           \* failed type assertion
                ELSE out' = Outcome(op, sh)
             /\ pc' = "done" /\ UNCHANGED <<op, sh, err>>

Next == Recv \/ TypeCheck \/ LenGuard \/ Index \/ TypeGuard \/ Use
Spec == Init /\ [][Next]_vars

InvNoPanic == out # "panic"
InvReturns == pc = "done" => out \in {"value", "error"}
InvErrorOnBadResponse == (pc = "done" /\ ~op.bg /\ (sh.rtype # "expected" \/ sh.status = "bad")) => out = "error"

\* the outcome as a function (what the rows carry); InvFunction ties it to the machine
Expected(o, s) ==
  IF s.rtype # "expected" \/ s.status = "bad" THEN (IF o.bg THEN "value" ELSE "error")
  ELSE LET short == CASE o.idx = "first" -> s.count = 0
                      [] o.idx = "all"   -> s.count < o.n
                      [] o.idx = "each"  -> s.count > o.n
                      [] OTHER           -> FALSE
       IN IF o.idx # "none" /\ short /\ o.name \in Dev_NoLenGuard THEN "panic"
          ELSE IF o.idx # "none" /\ short /\ o.name \notin Soft THEN "error"
          ELSE IF o.val /\ s.ist = "good" /\ s.vt # "expected"
               THEN (IF o.name \in Dev_NoTypeGuard THEN "panic" ELSE "error")
          ELSE Outcome(o, s)
InvFunction == pc = "done" => out = Expected(op, sh)

Row == [op |-> op.name, svc |-> op.svc, n |-> op.n, idx |-> op.idx, val |-> op.val,
        sh |-> sh, expect |-> Expected(op, sh)]
InvEmit == (Emit /\ pc = "recv") => PrintT("ROW " \o ToJson(Row))
=============================================================================
