CONSTANTS
  Dev_NoLenGuard = {"sub.Monitor", "monitor.Subscribe", "monitor.AddMonitorItems", "sub.ModifyMonitoredItems", "monitor.ModifyMonitorItems", "sub.Cancel", "monitor.Unsubscribe", "node.References", "node.References.next", "node.Children"}
  Dev_NoTypeGuard = {}
  Emit = FALSE
INIT Init
NEXT Next
INVARIANT InvNoPanic
CHECK_DEADLOCK FALSE
