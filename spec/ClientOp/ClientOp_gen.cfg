CONSTANTS
  Dev_NoLenGuard = {}
  Dev_NoTypeGuard = {}
  Emit = TRUE
INIT Init
NEXT Next
INVARIANT InvNoPanic
INVARIANT InvFunction
INVARIANT InvEmit
CHECK_DEADLOCK FALSE
