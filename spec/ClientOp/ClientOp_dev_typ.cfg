CONSTANTS
  Dev_NoLenGuard = {}
  Dev_NoTypeGuard = {"node.BrowseName", "node.Description", "node.DisplayName", "node.AccessLevel", "node.UserAccessLevel"}
  Emit = FALSE
INIT Init
NEXT Next
INVARIANT InvNoPanic
CHECK_DEADLOCK FALSE
