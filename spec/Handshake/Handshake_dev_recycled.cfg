CONSTANTS
  Dev_AdoptClientSecurity = FALSE
  Dev_IgnoreSigFailure = FALSE
  Dev_TokenKeyLimits = FALSE
  Dev_StatusSkipsVerify = FALSE
  Dev_CloseOnce = FALSE
  Dev_RecycledConfig = TRUE
  Dev_AdvertiseExtra = FALSE
  Dev_DropPolicy = ""
  Dev_WrongTokenPolicy = FALSE
  SresSet = {"good", "goodsub", "uncertain", "bad"}
  MaxAttempts = 1
  Histories = {"none", "secured"}
  ConfigSet = "one"
  Scripted = TRUE
  Intents = {"raw"}
  DiagKeys = FALSE
  Emit = "none"
INIT Init
NEXT Next
INVARIANT InvOnlyEnabled
CHECK_DEADLOCK FALSE
