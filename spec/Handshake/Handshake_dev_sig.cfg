CONSTANTS
  Dev_AdoptClientSecurity = FALSE
  Dev_IgnoreSigFailure = TRUE
  Dev_TokenKeyLimits = FALSE
  Dev_AdvertiseExtra = FALSE
  Dev_DropPolicy = ""
  Dev_WrongTokenPolicy = FALSE
  ConfigSet = "one"
  Scripted = TRUE
  Intents = {"endpoint", "raw"}
  DiagKeys = FALSE
  Emit = "none"
INIT Init
NEXT Next
INVARIANT InvNoPanic
CHECK_DEADLOCK FALSE
