CONSTANTS
  Dev_AdoptClientSecurity = FALSE
  Dev_IgnoreSigFailure = FALSE
  Dev_TokenKeyLimits = FALSE
  Dev_StatusSkipsVerify = FALSE
  Dev_CloseOnce = FALSE
  Dev_RecycledConfig = FALSE
  Dev_AdvertiseExtra = FALSE
  Dev_DropPolicy = "Basic256"
  Dev_WrongTokenPolicy = FALSE
  SresSet = {"good", "goodsub", "uncertain", "bad"}
  MaxAttempts = 1
  Histories = {"none"}
  ConfigSet = "one"
  Scripted = TRUE
  Intents = {"endpoint", "raw"}
  DiagKeys = FALSE
  Emit = "none"
INIT Init
NEXT Next
INVARIANT InvInterop
CHECK_DEADLOCK FALSE
