CONSTANTS
  Dev_AdoptClientSecurity = FALSE
  Dev_IgnoreSigFailure = FALSE
  Dev_TokenKeyLimits = FALSE
  Dev_AdvertiseExtra = FALSE
  Dev_DropPolicy = ""
  Dev_WrongTokenPolicy = FALSE
  ConfigSet = "thorough"
  Scripted = TRUE
  Intents = {"raw"}
  DiagKeys = FALSE
  Emit = "opn"
INIT Init
NEXT Next
INVARIANT InvEmit
CHECK_DEADLOCK FALSE
