------------------------------ MODULE Handshake ------------------------------
(***************************************************************************)
(* S8 -- connection handshake between a gopcua client and a server          *)
(* (C30, C37, C22).                                                         *)
(*                                                                          *)
(* One protocol run: the server is configured and started (server.New,      *)
(* Server.Start -> initEndpoints), a client discovers the endpoints         *)
(* (GetEndpoints), chooses one (SelectEndpoint + SecurityFromEndpoint) or   *)
(* -- as an adversary -- sends an OpenSecureChannel request with any        *)
(* (policy, mode), the server accepts or refuses the channel                *)
(* (uasc readChunk/handleOpenSecureChannelRequest), then CreateSession      *)
(* (server signature over client certificate + nonce), the client's         *)
(* signature check (client.go CreateSession), ActivateSession with a user   *)
(* token, the namespace read that ends Connect, a write and a read, a       *)
(* second activation of the session and another write and read.             *)
(* One action per protocol step / critical section of the code.             *)
(*                                                                          *)
(* The server side is either the real server (Scripted = FALSE: it always   *)
(* signs correctly) or an adversarial script (Scripted = TRUE: it answers   *)
(* CreateSession with a signature of any class).                            *)
(*                                                                          *)
(* Properties                                                               *)
(*   InvOnlyEnabled        (C30) an open channel uses an enabled pair       *)
(*   InvAdvertisedExactly  (C30) advertised endpoints = enabled pairs       *)
(*   InvTokens             (C37) every endpoint advertises exactly the      *)
(*                               enabled token types, with enabled policies *)
(*   InvProvenIdentity     (C22) Connected in a signed mode => signature ok *)
(*   InvNoPanic            (C22) the client never dereferences a nil session*)
(*   InvBadSigOutcome      (C22) bad signature => error, not connected,     *)
(*                               no session activated on the server         *)
(*   InvNoSessionUnverified(C22) for every service-result class of the      *)
(*                               response: session object => signature ok   *)
(*   InvCleanAfterFailure  (C22) after EVERY failed Connect of a client     *)
(*                               value: channel closed, state Closed        *)
(*   InvInterop            (C37) honest server + client that follows an     *)
(*                               advertised endpoint with allowed key sizes *)
(*                               always ends Connected, write ok, read back  *)
(*                                                                          *)
(* Deviation the code has (Dev_* = TRUE is the as-is model):                *)
(*   Dev_AdoptClientSecurity  server adopts policy and mode from the OPN    *)
(*                            (open known finding, C30)                     *)
(* Deviations the code had (now FALSE for good, kept as non-vacuity demos):  *)
(*   Dev_TokenKeyLimits       until 76fe2a1: EncryptUserPassword applied    *)
(*                            the key size limits of the user-token policy  *)
(*                            to the client's channel key                   *)
(*   Dev_IgnoreSigFailure     CreateSession logs a failed check and returns *)
(*                            (nil, nil); ActivateSession dereferences nil  *)
(* Demo-only deviations (never TRUE for the real code; non-vacuity):        *)
(*   Dev_AdvertiseExtra, Dev_DropPolicy, Dev_WrongTokenPolicy               *)
(***************************************************************************)
EXTENDS Naturals, Sequences, FiniteSets, TLC, Json

CONSTANTS Dev_AdoptClientSecurity, Dev_IgnoreSigFailure, Dev_TokenKeyLimits,
          Dev_StatusSkipsVerify,  \* demo: a Good-with-subcode / Uncertain service result makes the client skip the error of the signature check
          Dev_CloseOnce,          \* demo: only the first failed Connect of a client value cleans up
          Dev_RecycledConfig,     \* demo: server channel state of an earlier secured connection leaks into a later one
          SresSet,                \* service-result classes the script may put on the CreateSession response
          MaxAttempts,            \* Connect attempts on ONE client value (retry after a failure)
          Histories,              \* subset of {"none", "secured"}: what happened on the server before this client
          Dev_AdvertiseExtra, Dev_DropPolicy, Dev_WrongTokenPolicy,
          ConfigSet,      \* which server configurations: "all" "quick" "thorough" "interopq" "interop" "one"
          Scripted,       \* TRUE: adversarial server script (C22)
          Intents,        \* subset of {"endpoint", "raw"}: what kinds of clients are explored
          DiagKeys,       \* TRUE: endpoint clients use key sizes near the server's only (NearKeys)
          Emit            \* "none" | "opn" | "interop" | "sig"

---------------------------------------------------------------------------
\* The finite universe (uapolicy/securitypolicy.go, policy*.go)
Policies  == {"None", "Basic128Rsa15", "Basic256", "Basic256Sha256",
              "Aes128_Sha256_RsaOaep", "Aes256_Sha256_RsaPss"}
SecPols   == Policies \ {"None"}
Modes     == {"None", "Sign", "SignAndEncrypt"}
Pair(p, m) == [pol |-> p, mode |-> m]
AllPairs  == {Pair(p, m) : p \in Policies, m \in Modes}              \* anything a client can put in an OPN
SupportedPairs == {Pair("None", "None")} \cup
                  {Pair(p, m) : p \in SecPols, m \in {"Sign", "SignAndEncrypt"}}
KeySizes  == {1024, 2048, 3072, 4096}
KeyMin(p) == IF p \in {"Basic128Rsa15", "Basic256"} THEN 1024 ELSE 2048
KeyMax(p) == IF p \in {"Basic128Rsa15", "Basic256"} THEN 2048 ELSE 4096
KeyOK(p, k) == p = "None" \/ (KeyMin(p) <= k /\ k <= KeyMax(p))
AuthTypes == {"anon", "user"}
\* "otherdata": a correct signature of the server over anything but (client certificate + nonce of THIS
\* request): certificate alone, another certificate, another nonce -- including the nonce of another,
\* overlapping CreateSession request of the same client
SigClasses == {"valid", "corrupted", "empty", "otherkey", "otherdata"}
\* class of the ServiceResult in the CreateSession response header: Good (0), Good with a sub code
\* (GoodCompletesAsynchronously, GoodOverload ...), Uncertain, Bad
SresClasses == {"good", "goodsub", "uncertain", "bad"}

\* A server configuration: enabled pairs, size of the server key, enabled user-token types
CfgRec(ps, k, a) == [pairs |-> ps, skey |-> k, auth |-> a]
WellFormed(c) == \A pr \in c.pairs : KeyOK(pr.pol, c.skey)
Fit(k) == {pr \in SupportedPairs : KeyOK(pr.pol, k)}
Both == {"anon", "user"}
PairSetsQ(k) == {{}, Fit(k)} \cup {{pr} : pr \in Fit(k)} \cup {Fit(k) \ {pr} : pr \in Fit(k)}
PairSetsT(k) == PairSetsQ(k) \cup {{a, b} : a, b \in Fit(k)} \cup {Fit(k) \ {a, b} : a, b \in Fit(k)}
Configs ==
  CASE ConfigSet = "all"      -> {c \in [pairs : SUBSET SupportedPairs, skey : KeySizes,
                                         auth : {{"anon"}, {"user"}, Both}] : WellFormed(c)}
    [] ConfigSet = "quick"    -> {CfgRec(ps, 2048, Both) : ps \in PairSetsQ(2048)}
    [] ConfigSet = "thorough" -> {CfgRec(ps, 2048, Both) : ps \in PairSetsT(2048)} \cup
                                 UNION {{CfgRec(ps, k, Both) : ps \in PairSetsQ(k)} : k \in {1024, 4096}}
    [] ConfigSet = "interopq" -> {CfgRec(Fit(k), k, Both) : k \in KeySizes}
    [] ConfigSet = "interop"  -> {CfgRec(Fit(k), k, Both) : k \in KeySizes} \cup
                                 {CfgRec({pr}, 2048, a) : pr \in Fit(2048), a \in {{"anon"}, {"user"}, Both}} \cup
                                 {CfgRec({Pair("None", "None"), pr}, 2048, {"user"}) : pr \in Fit(2048)}
    [] ConfigSet = "one"      -> {CfgRec(Fit(2048), 2048, Both)}
    [] ConfigSet = "seq"      -> {CfgRec({Pair("Basic256Sha256", "Sign")}, 2048, {"anon"})}

\* what an endpoint carries: the pair and its user-token policies (type, policy used for the secret)
PolsOf(ps) == {pr.pol : pr \in ps}
TokensOf(c) ==
  {[type |-> "anon", pol |-> "None"] : x \in c.auth \cap {"anon"}} \cup
  {[type |-> "user", pol |-> IF Dev_WrongTokenPolicy /\ p = "Aes256_Sha256_RsaPss" THEN "Basic128Rsa15" ELSE p] :
       p \in IF "user" \in c.auth THEN PolsOf(c.pairs) \cap SecPols ELSE {}}
EndpointsOf(c) == {[pol |-> pr.pol, mode |-> pr.mode, toks |-> TokensOf(c)] : pr \in c.pairs}
ExtraPair == Pair("Basic256", "Sign")

VARIABLES
  cfg,      \* server configuration
  up,       \* server started
  adv,      \* endpoints the server advertises
  eps,      \* endpoints the client learned from GetEndpoints
  cli,      \* the client's choice: [intent, pol, mode, ckey, tok]
  chan,     \* "none" | "open" | "refused" | "closed"
  chanSec,  \* (policy, mode) of the open channel
  sig,      \* class of the server signature in the CreateSession response ("none" before, "na" in mode None)
  sess,     \* client session object: "none" | "created" | "nil" | "activated" | "error" | "panic"
  srvSess,  \* server side session: "none" | "created" | "activated"
  state,    \* client connection state: "Closed" | "Connecting" | "Connected"
  node,     \* value of the test node on the server
  ops,      \* results of the application calls after Connect
  sres,     \* class of the service result of the CreateSession response ("none" before)
  prev,     \* history of the server before this client: "none" | "secured" (a secured client connected and left)
  tries     \* earlier failed Connect attempts of this client value: <<[sig, sres, state, chan]>>
vars == <<cfg, up, adv, eps, cli, chan, chanSec, sig, sess, srvSess, state, node, ops, sres, prev, tries>>

NoChoice == [intent |-> "none", pol |-> "None", mode |-> "None", ckey |-> 0, tok |-> "none"]

Init == /\ cfg \in Configs
        /\ up = FALSE /\ adv = {} /\ eps = {}
        /\ cli = NoChoice
        /\ chan = "none" /\ chanSec = Pair("None", "None")
        /\ sig = "none" /\ sess = "none" /\ srvSess = "none"
        /\ state = "Closed" /\ node = 0 /\ ops = <<>>
        /\ sres = "none" /\ prev = "none" /\ tries = <<>>

---------------------------------------------------------------------------
\* server.Start: initEndpoints builds one endpoint per enabled pair
SrvStart ==
  /\ ~up
  /\ up' = TRUE
  /\ adv' = IF Dev_AdvertiseExtra /\ ExtraPair \notin cfg.pairs
            THEN EndpointsOf(cfg) \cup {[pol |-> ExtraPair.pol, mode |-> ExtraPair.mode, toks |-> TokensOf(cfg)]}
            ELSE EndpointsOf(cfg)
  /\ UNCHANGED <<cfg, eps, cli, chan, chanSec, sig, sess, srvSess, state, node, ops, sres, prev, tries>>

\* the server has a history: an ordinary secured client connected, worked and disconnected earlier.
\* Nothing of it may influence what a later connection is allowed to do.
PrevConn ==
  /\ up /\ cli.intent = "none" /\ eps = {} /\ prev = "none" /\ "secured" \in Histories
  /\ prev' = "secured"
  /\ UNCHANGED <<cfg, up, adv, eps, cli, chan, chanSec, sig, sess, srvSess, state, node, ops, sres, tries>>

\* opcua.GetEndpoints (discovery; its own short-lived channel is not modelled)
CliDiscover ==
  /\ up /\ eps = {} /\ adv # {} /\ cli.intent = "none"
  /\ eps' = adv
  /\ UNCHANGED <<cfg, up, adv, cli, chan, chanSec, sig, sess, srvSess, state, node, ops, sres, prev, tries>>

\* quick tier: the client key is the server's size or one across each boundary of the policy tables
\* (1024 | 2048 | > 2048), instead of every allowed size
NearKeys(sk) == CASE sk = 1024 -> {1024, 2048}
                  [] sk = 2048 -> {1024, 2048, 4096}
                  [] sk = 3072 -> {3072}
                  [] sk = 4096 -> {2048, 4096}
\* SelectEndpoint(policy, mode) + SecurityFromEndpoint(ep, tokenType) + key pair within the policy's limits
CliChooseEndpoint ==
  /\ "endpoint" \in Intents /\ cli.intent = "none" /\ eps # {}
  /\ \E e \in eps, k \in KeySizes, t \in AuthTypes :
       /\ KeyOK(e.pol, k)
       /\ (e.pol = "None" => k = 2048)                     \* no client key is used with None
       /\ (DiagKeys /\ e.pol # "None" => k \in NearKeys(cfg.skey))
       /\ \E tk \in e.toks : tk.type = t
       /\ cli' = [intent |-> "endpoint", pol |-> e.pol, mode |-> e.mode, ckey |-> k, tok |-> t]
  /\ state' = "Connecting"
  /\ UNCHANGED <<cfg, up, adv, eps, chan, chanSec, sig, sess, srvSess, node, ops, sres, prev, tries>>

\* an arbitrary client: any (policy, mode) in the OPN, whatever the server advertises
CliChooseRaw ==
  /\ "raw" \in Intents /\ cli.intent = "none" /\ up
  /\ \E pr \in AllPairs :
       cli' = [intent |-> "raw", pol |-> pr.pol, mode |-> pr.mode, ckey |-> 2048, tok |-> "anon"]
  /\ state' = "Connecting"
  /\ UNCHANGED <<cfg, up, adv, eps, chan, chanSec, sig, sess, srvSess, node, ops, sres, prev, tries>>

\* Can both sides do the asymmetric crypto of this OPN at all?
PolicyKnown(p) == p # Dev_DropPolicy
CryptoPossible(pr) == /\ pr \in SupportedPairs
                      /\ PolicyKnown(pr.pol)
                      /\ KeyOK(pr.pol, cfg.skey) /\ KeyOK(pr.pol, cli.ckey)

\* Client.Dial -> SecureChannel.Open; server: readChunk + handleOpenSecureChannelRequest
Opn ==
  /\ cli.intent # "none" /\ chan = "none"
  /\ LET pr == Pair(cli.pol, cli.mode)
         leak   == Dev_RecycledConfig /\ prev = "secured" /\ pr.pol = "None" /\ pr.mode # "None"
         accept == \/ leak
                   \/ IF Dev_AdoptClientSecurity THEN CryptoPossible(pr)
                      ELSE pr \in cfg.pairs /\ CryptoPossible(pr)
     IN  /\ chan' = IF accept THEN "open" ELSE "refused"
         /\ chanSec' = IF accept THEN pr ELSE chanSec
         /\ state' = IF accept THEN state ELSE "Closed"
  /\ UNCHANGED <<cfg, up, adv, eps, cli, sig, sess, srvSess, node, ops, sres, prev, tries>>

\* CreateSessionRequest/Response: the server signs clientCertificate + clientNonce
CreateSession ==
  /\ chan = "open" /\ cli.intent = "endpoint" /\ sig = "none"
  /\ \E s \in SigClasses, r \in SresSet :
       /\ (~Scripted => s = "valid" /\ r = "good")
       /\ sig' = IF chanSec.mode = "None" THEN "na" ELSE s
       /\ sres' = r
  /\ srvSess' = "created"
  /\ UNCHANGED <<cfg, up, adv, eps, cli, chan, chanSec, sess, state, node, ops, prev, tries>>

\* client.go CreateSession response handler: VerifySessionSignature
SigGood == sig \in {"valid", "na"}
\* a failed Connect calls Client.Close: channel and connection are closed, state Closed
CleanUp == IF Dev_CloseOnce /\ Len(tries) >= 1
           THEN UNCHANGED <<chan, state>>                    \* demo: Close ran once already and does nothing now
           ELSE chan' = "closed" /\ state' = "Closed"
SoftStatus == sres \in {"goodsub", "uncertain"}
CliVerifySig ==
  /\ sig # "none" /\ sess = "none"
  /\ \/ /\ sres = "bad"                            \* a Bad service result is the error, whatever the signature
        /\ sess' = "error" /\ CleanUp
     \/ /\ sres = "good" /\ SigGood
        /\ sess' = "created" /\ UNCHANGED <<chan, state>>
     \/ /\ SoftStatus /\ SigGood                    \* verified; accepting or refusing such a response are both allowed
        /\ \/ sess' = "created" /\ UNCHANGED <<chan, state>>
           \/ sess' = "error" /\ CleanUp
     \/ /\ sres # "bad" /\ ~SigGood /\ ~Dev_IgnoreSigFailure /\ ~(Dev_StatusSkipsVerify /\ SoftStatus)
        /\ sess' = "error" /\ CleanUp                \* error -> Connect closes the channel and returns it
     \/ /\ sres # "bad" /\ ~SigGood /\ Dev_IgnoreSigFailure         \* logged, (nil, nil) returned
        /\ sess' = "nil" /\ UNCHANGED <<chan, state>>
     \/ /\ SoftStatus /\ ~SigGood /\ Dev_StatusSkipsVerify /\ ~Dev_IgnoreSigFailure   \* session built before the check, error dropped
        /\ sess' = "created" /\ UNCHANGED <<chan, state>>
  /\ UNCHANGED <<cfg, up, adv, eps, cli, chanSec, sig, srvSess, node, ops, sres, prev, tries>>

\* the application calls Connect again on the SAME client value after a failure
Retry ==
  /\ cli.intent = "endpoint" /\ sess = "error" /\ chan # "open" /\ Len(tries) + 1 < MaxAttempts
  /\ tries' = Append(tries, [sig |-> sig, sres |-> sres, state |-> state, chan |-> chan])
  /\ chan' = "none" /\ sig' = "none" /\ sres' = "none" /\ sess' = "none" /\ srvSess' = "none"
  /\ state' = "Connecting"
  /\ UNCHANGED <<cfg, up, adv, eps, cli, chanSec, node, ops, prev>>

\* client.go ActivateSession (client signature, user token secret) + server ActivateSession,
\* then the namespace read that ends Connect
\* the username secret is encrypted with the policy of a username token policy of the endpoint (the client
\* takes the first one advertised; which one that is, is not specified)
TokenKeyClash == /\ Dev_TokenKeyLimits /\ cli.tok = "user"
                 /\ \E t \in TokensOf(cfg) : t.type = "user" /\ ~KeyOK(t.pol, cli.ckey)
Activate ==
  /\ chan = "open" /\ sess \in {"created", "nil"}
  /\ \/ /\ sess = "created" /\ TokenKeyClash          \* EncryptUserPassword fails: Connect closes and returns the error
        /\ sess' = "error" /\ state' = "Closed" /\ UNCHANGED srvSess
     \/ /\ sess = "created"
        /\ sess' = "activated" /\ srvSess' = "activated" /\ state' = "Connected"
     \/ /\ sess = "nil"                             \* s.serverCertificate on a nil *Session
        /\ sess' = "panic" /\ UNCHANGED <<srvSess, state>>
  /\ UNCHANGED <<cfg, up, adv, eps, cli, chan, chanSec, sig, node, ops, sres, prev, tries>>

\* application calls on the connected client
Write ==
  /\ state = "Connected" /\ Len(ops) = 0
  /\ node' = 1 /\ ops' = Append(ops, [op |-> "write", res |-> "Good"])
  /\ UNCHANGED <<cfg, up, adv, eps, cli, chan, chanSec, sig, sess, srvSess, state, sres, prev, tries>>
Read ==
  /\ state = "Connected" /\ Len(ops) \in {1, 4}
  /\ ops' = Append(ops, [op |-> "read", res |-> "Good", val |-> node])
  /\ UNCHANGED <<cfg, up, adv, eps, cli, chan, chanSec, sig, sess, srvSess, state, node, sres, prev, tries>>
\* the session is activated again on the same channel (DetachSession + ActivateSession: what the client's
\* restoreSession step does after a reconnect, or a change of user): signed over the nonce of the last
\* ActivateSession response
Reactivate ==
  /\ state = "Connected" /\ Len(ops) = 2 /\ sess = "activated"
  /\ ops' = Append(ops, [op |-> "reactivate", res |-> "Good"])
  /\ UNCHANGED <<cfg, up, adv, eps, cli, chan, chanSec, sig, sess, srvSess, state, node, sres, prev, tries>>
Write2 ==
  /\ state = "Connected" /\ Len(ops) = 3
  /\ node' = 2 /\ ops' = Append(ops, [op |-> "write", res |-> "Good"])
  /\ UNCHANGED <<cfg, up, adv, eps, cli, chan, chanSec, sig, sess, srvSess, state, sres, prev, tries>>

Next == SrvStart \/ PrevConn \/ CliDiscover \/ CliChooseEndpoint \/ CliChooseRaw \/ Opn
        \/ CreateSession \/ CliVerifySig \/ Retry \/ Activate \/ Write \/ Read \/ Reactivate \/ Write2
Spec == Init /\ [][Next]_vars

\* a run is over (explicit, cheap to evaluate; InvTerminalDef ties it to ~ENABLED Next)
Terminal ==
  \/ chan = "refused"
  \/ cli.intent = "raw" /\ chan = "open"
  \/ sess = "panic"
  \/ sess = "error" /\ (chan = "open" \/ Len(tries) + 1 >= MaxAttempts)
  \/ Len(ops) = 5
  \/ up /\ cli.intent = "none" /\ "raw" \notin Intents /\ (adv = {} \/ "endpoint" \notin Intents)
InvTerminalDef == Terminal <=> ~ENABLED Next

---------------------------------------------------------------------------
\* C30
InvOnlyEnabled       == chan = "open" => chanSec \in cfg.pairs
\* a state invariant: it holds whenever and for whichever of the server's endpoint URLs the list is read
\* (the replay reads it for two URLs, over the wire and through Server.Endpoints(), at the start and at
\* the end of every run)
InvAdvertisedExactly == up => {Pair(e.pol, e.mode) : e \in adv} = cfg.pairs
\* C37: token policies
InvTokens == up => \A e \in adv :
                /\ {t.type : t \in e.toks} =
                      (cfg.auth \cap {"anon"}) \cup
                      (IF PolsOf(cfg.pairs) \cap SecPols # {} THEN cfg.auth \cap {"user"} ELSE {})
                /\ \A t \in e.toks : t.type = "user" => t.pol \in PolsOf(cfg.pairs) \cap SecPols
\* C22
InvProvenIdentity == (state = "Connected" /\ chanSec.mode # "None") => sig = "valid"
InvNoPanic        == sess # "panic"
InvBadSigOutcome  == (Terminal /\ sig \in SigClasses \ {"valid"}) =>
                        /\ sess = "error" /\ state = "Closed" /\ srvSess # "activated"
\* whatever the service result of the response: no session object without a verified signature
InvNoSessionUnverified == (sess \in {"created", "activated"} /\ chanSec.mode # "None") => sig = "valid"
InvBadStatusOutcome == (sres = "bad" /\ sess # "none") => sess = "error"
\* "leaves the client not connected": after every failed Connect -- the first and every later one on the same
\* client value -- the channel is closed and the state is Closed, so that the next Connect starts afresh
InvCleanAfterFailure == (sess = "error" /\ ~Dev_TokenKeyLimits) => (state = "Closed" /\ chan # "open")
\* C37
BadSigs == SigClasses \ {"valid"}
InvInterop == (Terminal /\ cli.intent = "endpoint" /\ sig \notin BadSigs /\ sres \in {"good", "none"}) =>
                 /\ state = "Connected"
                 /\ ops = <<[op |-> "write", res |-> "Good"], [op |-> "read", res |-> "Good", val |-> 1],
                           [op |-> "reactivate", res |-> "Good"],
                           [op |-> "write", res |-> "Good"], [op |-> "read", res |-> "Good", val |-> 2]>>

---------------------------------------------------------------------------
\* Rows for the replay harness
SetToSeq(S) == CHOOSE f \in [1..Cardinality(S) -> S] : \A i, j \in 1..Cardinality(S) : f[i] = f[j] => i = j
CfgJson == [pairs |-> cfg.pairs, skey |-> cfg.skey, auth |-> cfg.auth]
OpnRow == [kind |-> "opn", cfg |-> CfgJson, adv |-> adv, prev |-> prev,
           pol |-> cli.pol, mode |-> cli.mode, ckey |-> cli.ckey,
           expect |-> chan]
InteropRow == [kind |-> "interop", cfg |-> CfgJson, adv |-> adv,
               pol |-> cli.pol, mode |-> cli.mode, ckey |-> cli.ckey, tok |-> cli.tok,
               expect |-> [state |-> state, ops |-> ops]]
SigRow == [kind |-> "sig", pol |-> cli.pol, mode |-> cli.mode, ckey |-> cli.ckey, sig |-> sig, sres |-> sres,
           expect |-> [state |-> state, sess |-> sess, srvSess |-> srvSess]]
\* a sequence of Connect attempts on one client value: the failed ones and the last one
SeqRow == [kind |-> "seq", pol |-> cli.pol, mode |-> cli.mode, ckey |-> cli.ckey,
           tries |-> Append(tries, [sig |-> sig, sres |-> sres, state |-> state, chan |-> chan])]
InvEmit ==
  /\ (Emit = "opn" /\ cli.intent = "raw" /\ chan \in {"open", "refused"}) => PrintT("ROW " \o ToJson(OpnRow))
  /\ (Emit = "opn" /\ up /\ cli.intent = "none" /\ eps = {} /\ prev = "none") =>
        PrintT("ROW " \o ToJson([kind |-> "adv", cfg |-> CfgJson, adv |-> adv]))
  /\ (Emit = "interop" /\ Terminal /\ cli.intent = "endpoint") => PrintT("ROW " \o ToJson(InteropRow))
  /\ (Emit = "sig" /\ Terminal /\ cli.intent = "endpoint") => PrintT("ROW " \o ToJson(SigRow))
  /\ (Emit = "seq" /\ Terminal /\ cli.intent = "endpoint") => PrintT("ROW " \o ToJson(SeqRow))
=============================================================================
