CONSTANTS
  Dev_AdoptClientSecurity = FALSE
  Dev_IgnoreSigFailure = FALSE
  Dev_TokenKeyLimits = TRUE
  Dev_AdvertiseExtra = FALSE
  Dev_DropPolicy = ""
  Dev_WrongTokenPolicy = FALSE
  ConfigSet = "one"
  Scripted = TRUE
  Intents = {"endpoint", "raw"}
  DiagKeys = FALSE
  Emit = "none"
INIT Init
NEXT Next
INVARIANT InvInterop
CHECK_DEADLOCK FALSE
