CONSTANTS
  Dev_AdoptClientSecurity = FALSE
  Dev_IgnoreSigFailure = FALSE
  Dev_TokenKeyLimits = FALSE
  Dev_AdvertiseExtra = FALSE
  Dev_DropPolicy = ""
  Dev_WrongTokenPolicy = FALSE
  ConfigSet = "interopq"
  Scripted = FALSE
  Intents = {"endpoint"}
  DiagKeys = TRUE
  Emit = "interop"
INIT Init
NEXT Next
INVARIANT InvInterop
INVARIANT InvEmit
CHECK_DEADLOCK FALSE
