CONSTANTS
  Dev_AdoptClientSecurity = FALSE
  Dev_IgnoreSigFailure = FALSE
  Dev_TokenKeyLimits = FALSE
  Dev_StatusSkipsVerify = FALSE
  Dev_CloseOnce = FALSE
  Dev_RecycledConfig = FALSE
  Dev_AdvertiseExtra = FALSE
  Dev_DropPolicy = ""
  Dev_WrongTokenPolicy = TRUE
  SresSet = {"good", "goodsub", "uncertain", "bad"}
  MaxAttempts = 1
  Histories = {"none"}
  ConfigSet = "interop"
  Scripted = TRUE
  Intents = {"endpoint", "raw"}
  DiagKeys = FALSE
  Emit = "none"
INIT Init
NEXT Next
INVARIANT InvTokens
CHECK_DEADLOCK FALSE
