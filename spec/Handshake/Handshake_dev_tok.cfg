CONSTANTS
  Dev_AdoptClientSecurity = FALSE
  Dev_IgnoreSigFailure = FALSE
  Dev_TokenKeyLimits = FALSE
  Dev_AdvertiseExtra = FALSE
  Dev_DropPolicy = ""
  Dev_WrongTokenPolicy = TRUE
  ConfigSet = "interop"
  Scripted = TRUE
  Intents = {"endpoint", "raw"}
  DiagKeys = FALSE
  Emit = "none"
INIT Init
NEXT Next
INVARIANT InvTokens
CHECK_DEADLOCK FALSE
