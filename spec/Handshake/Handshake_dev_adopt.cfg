CONSTANTS
  Dev_AdoptClientSecurity = TRUE
  Dev_IgnoreSigFailure = FALSE
  Dev_TokenKeyLimits = FALSE
  Dev_AdvertiseExtra = FALSE
  Dev_DropPolicy = ""
  Dev_WrongTokenPolicy = FALSE
  ConfigSet = "quick"
  Scripted = TRUE
  Intents = {"endpoint", "raw"}
  DiagKeys = FALSE
  Emit = "none"
INIT Init
NEXT Next
INVARIANT InvOnlyEnabled
CHECK_DEADLOCK FALSE
