CONSTANTS
  Dev_AdoptClientSecurity = FALSE
  Dev_IgnoreSigFailure = FALSE
  Dev_TokenKeyLimits = FALSE
  Dev_AdvertiseExtra = FALSE
  Dev_DropPolicy = ""
  Dev_WrongTokenPolicy = FALSE
  ConfigSet = "all"
  Scripted = TRUE
  Intents = {"endpoint", "raw"}
  DiagKeys = FALSE
  Emit = "none"
INIT Init
NEXT Next
INVARIANT InvOnlyEnabled
INVARIANT InvAdvertisedExactly
INVARIANT InvTokens
INVARIANT InvProvenIdentity
INVARIANT InvNoPanic
INVARIANT InvBadSigOutcome
INVARIANT InvInterop
CHECK_DEADLOCK FALSE
