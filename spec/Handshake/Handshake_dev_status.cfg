CONSTANTS
  Dev_AdoptClientSecurity = FALSE
  Dev_IgnoreSigFailure = FALSE
  Dev_TokenKeyLimits = FALSE
  Dev_StatusSkipsVerify = TRUE
  Dev_CloseOnce = FALSE
  Dev_RecycledConfig = FALSE
  Dev_AdvertiseExtra = FALSE
  Dev_DropPolicy = ""
  Dev_WrongTokenPolicy = FALSE
  SresSet = {"good", "goodsub", "uncertain", "bad"}
  MaxAttempts = 1
  Histories = {"none"}
  ConfigSet = "seq"
  Scripted = TRUE
  Intents = {"endpoint"}
  DiagKeys = TRUE
  Emit = "none"
INIT Init
NEXT Next
INVARIANT InvProvenIdentity
CHECK_DEADLOCK FALSE
