CONSTANTS
  Dev_AdoptClientSecurity = FALSE
  Dev_IgnoreSigFailure = FALSE
  Dev_TokenKeyLimits = FALSE
  Dev_StatusSkipsVerify = FALSE
  Dev_CloseOnce = TRUE
  Dev_RecycledConfig = FALSE
  Dev_AdvertiseExtra = FALSE
  Dev_DropPolicy = ""
  Dev_WrongTokenPolicy = FALSE
  SresSet = {"good"}
  MaxAttempts = 3
  Histories = {"none"}
  ConfigSet = "seq"
  Scripted = TRUE
  Intents = {"endpoint"}
  DiagKeys = TRUE
  Emit = "none"
INIT Init
NEXT Next
INVARIANT InvCleanAfterFailure
CHECK_DEADLOCK FALSE
