CONSTANTS
  Dev_AdoptClientSecurity = FALSE
  Dev_IgnoreSigFailure = FALSE
  Dev_TokenKeyLimits = FALSE
  Dev_StatusSkipsVerify = FALSE
  Dev_CloseOnce = FALSE
  Dev_RecycledConfig = FALSE
  Dev_AdvertiseExtra = FALSE
  Dev_DropPolicy = ""
  Dev_WrongTokenPolicy = FALSE
  SresSet = {"good"}
  MaxAttempts = 1
  Histories = {"none"}
  ConfigSet = "interop"
  Scripted = FALSE
  Intents = {"endpoint"}
  DiagKeys = FALSE
  Emit = "interop"
INIT Init
NEXT Next
INVARIANT InvInterop
INVARIANT InvEmit
CHECK_DEADLOCK FALSE
