CONSTANTS
  Dev_AdoptClientSecurity = FALSE
  Dev_IgnoreSigFailure = FALSE
  Dev_TokenKeyLimits = FALSE
  Dev_AdvertiseExtra = FALSE
  Dev_DropPolicy = ""
  Dev_WrongTokenPolicy = FALSE
  ConfigSet = "one"
  Scripted = TRUE
  Intents = {"endpoint"}
  DiagKeys = TRUE
  Emit = "sig"
INIT Init
NEXT Next
INVARIANT InvBadSigOutcome
INVARIANT InvEmit
CHECK_DEADLOCK FALSE
