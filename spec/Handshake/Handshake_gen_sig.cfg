CONSTANTS
  Dev_AdoptClientSecurity = FALSE
  Dev_IgnoreSigFailure = FALSE
  Dev_TokenKeyLimits = FALSE
  Dev_StatusSkipsVerify = FALSE
  Dev_CloseOnce = FALSE
  Dev_RecycledConfig = FALSE
  Dev_AdvertiseExtra = FALSE
  Dev_DropPolicy = ""
  Dev_WrongTokenPolicy = FALSE
  SresSet = {"good", "goodsub", "uncertain", "bad"}
  MaxAttempts = 1
  Histories = {"none"}
  ConfigSet = "one"
  Scripted = TRUE
  Intents = {"endpoint"}
  DiagKeys = TRUE
  Emit = "sig"
INIT Init
NEXT Next
INVARIANT InvBadSigOutcome
INVARIANT InvNoSessionUnverified
INVARIANT InvEmit
CHECK_DEADLOCK FALSE
