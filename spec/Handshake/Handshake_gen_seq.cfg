CONSTANTS
  Dev_AdoptClientSecurity = FALSE
  Dev_IgnoreSigFailure = FALSE
  Dev_TokenKeyLimits = FALSE
  Dev_StatusSkipsVerify = FALSE
  Dev_CloseOnce = FALSE
  Dev_RecycledConfig = FALSE
  Dev_AdvertiseExtra = FALSE
  Dev_DropPolicy = ""
  Dev_WrongTokenPolicy = FALSE
  SresSet = {"good"}
  MaxAttempts = 4
  Histories = {"none"}
  ConfigSet = "seq"
  Scripted = TRUE
  Intents = {"endpoint"}
  DiagKeys = TRUE
  Emit = "seq"
INIT Init
NEXT Next
INVARIANT InvCleanAfterFailure
INVARIANT InvEmit
CHECK_DEADLOCK FALSE
