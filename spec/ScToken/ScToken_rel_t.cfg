\* thorough: every lifetime 2..20000 ms in 1 ms steps + whole minutes to 2 h (the model counts in ms: a 1 ms lifetime has its 0.75 ms delay below the resolution)
CONSTANTS
  Lifetimes <- LifetimesT
  Dev_RenewFloorSeconds = FALSE
  L = 2000
  Step = 500
  MaxTime = 6000
  Dev_GateUsesOldToken = FALSE
  Dev_ServerRekeyInPlace = FALSE
  Part = "relation"
INIT Init
NEXT Next
INVARIANTS InvRenewWindow
CHECK_DEADLOCK FALSE
