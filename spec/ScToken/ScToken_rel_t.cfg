\* thorough: every lifetime 1..20000 ms in 1 ms steps + hours
CONSTANTS
  Lifetimes <- LifetimesT
  Dev_RenewFloorSeconds = FALSE
  L = 2000
  Step = 500
  MaxTime = 6000
  Dev_ServerRekeyInPlace = FALSE
  Part = "relation"
INIT Init
NEXT Next
INVARIANTS InvRenewWindow
CHECK_DEADLOCK FALSE
