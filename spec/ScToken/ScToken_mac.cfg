\* contract machine: renew once per token inside the window, every message accepted
CONSTANTS
  Lifetimes = {1000}
  Dev_RenewFloorSeconds = FALSE
  L = 2000
  Step = 500
  MaxTime = 6000
  Dev_GateUsesOldToken = FALSE
  Dev_ServerRekeyInPlace = FALSE
  Part = "machine"
INIT Init
NEXT Next
INVARIANTS InvRenewOnce InvMacWindow InvUsable InvGateUsesNew
CHECK_DEADLOCK FALSE
