\* demo (repaired in 2282172): delay truncated to whole seconds -> renewal before half the lifetime
CONSTANTS
  Lifetimes <- LifetimesQ
  Dev_RenewFloorSeconds = TRUE
  L = 2000
  Step = 500
  MaxTime = 6000
  Dev_GateUsesOldToken = FALSE
  Dev_ServerRekeyInPlace = FALSE
  Part = "relation"
INIT Init
NEXT Next
INVARIANTS InvRenewWindow
CHECK_DEADLOCK FALSE
