\* as-is: the server re-keys its only instance in place -> a message protected with the old token is refused
CONSTANTS
  Lifetimes = {1000}
  Dev_RenewFloorSeconds = FALSE
  L = 2000
  Step = 500
  MaxTime = 6000
  Dev_GateUsesOldToken = FALSE
  Dev_ServerRekeyInPlace = TRUE
  Part = "machine"
INIT Init
NEXT Next
INVARIANTS InvUsable
CHECK_DEADLOCK FALSE
