------------------------------- MODULE ScToken -------------------------------
(***************************************************************************)
(* C16 -- security token renewal (uasc/secure_channel.go scheduleRenewal,  *)
(* renew, handleOpenSecureChannelResponse/Request).                        *)
(*                                                                         *)
(* Part 1 (relation): the renewal delay as a function of the revised       *)
(* lifetime L (ms).  Contract: half the lifetime <= delay < lifetime       *)
(* (Part 4 5.5.2.1 recommends 75 %).  The code computes                    *)
(*   time.Second * Duration(L.Seconds() * 0.75)   = whole seconds          *)
(* (Dev_RenewFloorSeconds; repaired in 2282172, kept as a demo); the       *)
(* contract computes 0.75 L in milliseconds.                               *)
(* One TLC state per lifetime = one row for the harness, which reads the   *)
(* delay the real client computed from the hook renew.sched.               *)
(*                                                                         *)
(* Part 2 (state machine): one client, one server, tokens in a row; the    *)
(* clock advances in ticks of Step ms.  Renew fires once per token at its  *)
(* delay; requests and server responses are issued at any tick and are     *)
(* protected with the sender's active token; the receiver accepts every    *)
(* token it still knows.  The server either keeps the old token next to    *)
(* the new one (contract) or re-keys its only instance in place            *)
(* (Dev_ServerRekeyInPlace): a message that was protected with the old     *)
(* keys and arrives after the re-key is then refused.                      *)
(***************************************************************************)
EXTENDS Naturals, Sequences, FiniteSets, TLC, Json

CONSTANTS Lifetimes,            \* lifetimes (ms) of the relation part
          Dev_RenewFloorSeconds,
          L, Step, MaxTime,     \* state machine: lifetime, tick, horizon (ms)
          Dev_ServerRekeyInPlace,
          Part                  \* "relation" | "machine"

LifetimesQ == {100 * i : i \in 1..100} \cup {1000 * i : i \in 11..60} \cup {1333, 1334, 2001, 2666, 2667, 3999, 4000, 3600000}
LifetimesT == 2..20000 \cup {60000 * i : i \in 1..120}
LifetimesG == {50 * i : i \in 1..400} \cup {1333, 1334, 2001, 2666, 2667, 3600000}

\* ---- relation ----
RenewDelay(l) == IF Dev_RenewFloorSeconds THEN 1000 * ((l * 3) \div 4000)   \* floor(l/1000 * 0.75) seconds
                 ELSE (l * 3) \div 4
WindowOK(l, d) == 2 * d >= l /\ d < l

VARIABLES lt,       \* relation: the lifetime of this state
          now, tok, created, renewed, inflight, accepted, refused, srvKnows, cliKnows
vars == <<lt, now, tok, created, renewed, inflight, accepted, refused, srvKnows, cliKnows>>

InitRel == /\ Part = "relation" /\ lt \in Lifetimes
           /\ now = 0 /\ tok = 1 /\ created = 0 /\ renewed = {} /\ inflight = {} /\ accepted = 0 /\ refused = 0
           /\ srvKnows = {1} /\ cliKnows = {1}
InitMac == /\ Part = "machine" /\ lt = L
           /\ now = 0 /\ tok = 1 /\ created = 0 /\ renewed = {} /\ inflight = {} /\ accepted = 0 /\ refused = 0
           /\ srvKnows = {1} /\ cliKnows = {1}
Init == InitRel \/ InitMac

Row == [lifetime |-> lt, delay |-> RenewDelay(lt), lo |-> (lt + 1) \div 2, hi |-> lt,
        contract |-> (lt * 3) \div 4, asis |-> 1000 * ((lt * 3) \div 4000)]
InvRenewWindow == Part = "relation" => WindowOK(lt, RenewDelay(lt))
InvEmit == Part = "relation" => PrintT("ROW " \o ToJson(Row))

\* ---- machine ----
Tick == /\ Part = "machine" /\ now + Step <= MaxTime
        /\ ~(tok \notin renewed /\ now >= created + RenewDelay(lt))      \* the renewal timer fires at its time
        /\ now' = now + Step
        /\ UNCHANGED <<lt, tok, created, renewed, inflight, accepted, refused, srvKnows, cliKnows>>

\* a message protected with the sender's current token is put on the wire
Send(dir) == /\ Part = "machine" /\ Cardinality(inflight) < 2
             /\ inflight' = inflight \cup {[dir |-> dir, tok |-> tok, at |-> now]}
             /\ UNCHANGED <<lt, now, tok, created, renewed, accepted, refused, srvKnows, cliKnows>>

Recv(m) == /\ m \in inflight
           /\ inflight' = inflight \ {m}
           /\ IF m.tok \in (IF m.dir = "c2s" THEN srvKnows ELSE cliKnows)
              THEN accepted' = 1 /\ UNCHANGED refused
              ELSE refused' = 1 /\ UNCHANGED accepted
           /\ UNCHANGED <<lt, now, tok, created, renewed, srvKnows, cliKnows>>

\* the renewal: OPN request/response; both sides switch to the new token
Renew == /\ Part = "machine" /\ tok \notin renewed /\ now >= created + RenewDelay(lt)
         /\ renewed' = renewed \cup {tok}
         /\ tok' = tok + 1 /\ created' = now
         /\ srvKnows' = IF Dev_ServerRekeyInPlace THEN {tok + 1} ELSE srvKnows \cup {tok + 1}
         /\ cliKnows' = cliKnows \cup {tok + 1}
         /\ UNCHANGED <<lt, now, inflight, accepted, refused>>

Next == Tick \/ Renew \/ (\E d \in {"c2s", "s2c"} : Send(d)) \/ (\E m \in inflight : Recv(m))
Spec == Init /\ [][Next]_vars

InvRenewOnce  == Part = "machine" => \A t \in renewed : t < tok
InvMacWindow  == Part = "machine" => (tok \notin renewed => now <= created + lt)   \* renewed before the token expires
InvUsable     == refused = 0
InvNoEarly    == Part = "machine" => \A t \in 1..tok : TRUE
=============================================================================
