------------------------------- MODULE ScToken -------------------------------
(***************************************************************************)
(* C16 -- security token renewal (uasc/secure_channel.go scheduleRenewal,  *)
(* renew, handleOpenSecureChannelResponse/Request).                        *)
(*                                                                         *)
(* Part 1 (relation): the renewal delay as a function of the revised       *)
(* lifetime L (ms).  Contract: half the lifetime <= delay < lifetime       *)
(* (Part 4 5.5.2.1 recommends 75 %).  The code computes                    *)
(*   time.Second * Duration(L.Seconds() * 0.75)   = whole seconds          *)
(* (Dev_RenewFloorSeconds; repaired in 2282172, kept as a demo); the       *)
(* contract computes 0.75 L in milliseconds.                               *)
(* One TLC state per lifetime = one row for the harness, which reads the   *)
(* delay the real client computed from the hook renew.sched.               *)
(*                                                                         *)
(* Part 2 (state machine): one client, one server, tokens in a row; the    *)
(* clock advances in ticks of Step ms.  Renew fires once per token at its  *)
(* delay; requests and server responses are issued at any tick and are     *)
(* protected with the sender's active token; the receiver accepts every    *)
(* token it still knows.  The server either keeps the old token next to    *)
(* the new one (contract) or re-keys its only instance in place            *)
(* (Dev_ServerRekeyInPlace): a message that was protected with the old     *)
(* keys and arrives after the re-key is then refused.                      *)
(***************************************************************************)
EXTENDS Naturals, Sequences, FiniteSets, TLC, Json

CONSTANTS Lifetimes,            \* lifetimes (ms) of the relation part
          Dev_RenewFloorSeconds,
          L, Step, MaxTime,     \* state machine: lifetime, tick, horizon (ms)
          Dev_ServerRekeyInPlace,
          Dev_GateUsesOldToken,   \* (demo) a request issued during a renewal is sent with the superseded token
          Part                  \* "relation" | "machine"

LifetimesQ == {100 * i : i \in 1..100} \cup {1000 * i : i \in 11..60} \cup {1333, 1334, 2001, 2666, 2667, 3999, 4000, 3600000}
LifetimesT == 2..20000 \cup {60000 * i : i \in 1..120}
LifetimesG == {50 * i : i \in 1..400} \cup {1333, 1334, 2001, 2666, 2667, 3600000}

\* ---- relation ----
RenewDelay(l) == IF Dev_RenewFloorSeconds THEN 1000 * ((l * 3) \div 4000)   \* floor(l/1000 * 0.75) seconds
                 ELSE (l * 3) \div 4
WindowOK(l, d) == 2 * d >= l /\ d < l

VARIABLES lt,       \* relation: the lifetime of this state
          now, tok, created, renewed, inflight, accepted, refused, srvKnows, cliKnows,
          renewing,   \* the renewal's OPN exchange is in flight (the client's request gate is locked)
          gateQ       \* number of client requests issued meanwhile: they wait at the gate
vars == <<lt, now, tok, created, renewed, inflight, accepted, refused, srvKnows, cliKnows, renewing, gateQ>>

InitRel == /\ Part = "relation" /\ lt \in Lifetimes
           /\ now = 0 /\ tok = 1 /\ created = 0 /\ renewed = {} /\ inflight = {} /\ accepted = 0 /\ refused = 0
           /\ srvKnows = {1} /\ cliKnows = {1} /\ renewing = FALSE /\ gateQ = 0
InitMac == /\ Part = "machine" /\ lt = L
           /\ now = 0 /\ tok = 1 /\ created = 0 /\ renewed = {} /\ inflight = {} /\ accepted = 0 /\ refused = 0
           /\ srvKnows = {1} /\ cliKnows = {1} /\ renewing = FALSE /\ gateQ = 0
Init == InitRel \/ InitMac

Row == [lifetime |-> lt, delay |-> RenewDelay(lt), lo |-> (lt + 1) \div 2, hi |-> lt,
        contract |-> (lt * 3) \div 4, asis |-> 1000 * ((lt * 3) \div 4000)]
InvRenewWindow == Part = "relation" => WindowOK(lt, RenewDelay(lt))
InvEmit == Part = "relation" => PrintT("ROW " \o ToJson(Row))

\* ---- machine ----
Tick == /\ Part = "machine" /\ now + Step <= MaxTime /\ ~renewing
        /\ ~(tok \notin renewed /\ now >= created + RenewDelay(lt))      \* the renewal timer fires at its time
        /\ now' = now + Step
        /\ UNCHANGED <<lt, tok, created, renewed, inflight, accepted, refused, srvKnows, cliKnows, renewing, gateQ>>

\* a message protected with the sender's current token is put on the wire; a client request issued
\* while a renewal is in flight waits at the request gate
Send(dir) == /\ Part = "machine" /\ Cardinality(inflight) + gateQ < 2
             /\ IF dir = "c2s" /\ renewing
                THEN gateQ' = gateQ + 1 /\ UNCHANGED inflight
                ELSE /\ inflight' = inflight \cup {[dir |-> dir, tok |-> tok, cur |-> tok, at |-> now, late |-> FALSE]}
                     /\ UNCHANGED gateQ
             /\ UNCHANGED <<lt, now, tok, created, renewed, accepted, refused, srvKnows, cliKnows, renewing>>

Recv(m) == /\ m \in inflight
           /\ inflight' = inflight \ {m}
           /\ IF m.tok \in (IF m.dir = "c2s" THEN srvKnows ELSE cliKnows)
              THEN accepted' = 1 /\ UNCHANGED refused
              ELSE refused' = 1 /\ UNCHANGED accepted
           /\ UNCHANGED <<lt, now, tok, created, renewed, srvKnows, cliKnows, renewing, gateQ>>

\* the renewal: the gate is locked and the OPN request goes out ...
RenewStart == /\ Part = "machine" /\ ~renewing /\ tok \notin renewed /\ now >= created + RenewDelay(lt)
              /\ renewing' = TRUE /\ renewed' = renewed \cup {tok}
              /\ UNCHANGED <<lt, now, tok, created, inflight, accepted, refused, srvKnows, cliKnows, gateQ>>

\* ... the response arrives: both sides switch to the new token, the gate opens and the requests that
\* waited there are sent with the token that is current now
RenewEnd == /\ Part = "machine" /\ renewing
            /\ renewing' = FALSE
            /\ tok' = tok + 1 /\ created' = now
            /\ srvKnows' = IF Dev_ServerRekeyInPlace THEN {tok + 1} ELSE srvKnows \cup {tok + 1}
            /\ cliKnows' = cliKnows \cup {tok + 1}
            /\ inflight' = IF gateQ = 0 THEN inflight
                           ELSE inflight \cup {[dir |-> "c2s", tok |-> (IF Dev_GateUsesOldToken THEN tok ELSE tok + 1), cur |-> tok + 1, at |-> now, late |-> TRUE]}
            /\ gateQ' = 0
            /\ UNCHANGED <<lt, now, renewed, accepted, refused>>

Next == Tick \/ RenewStart \/ RenewEnd \/ (\E d \in {"c2s", "s2c"} : Send(d)) \/ (\E m \in inflight : Recv(m))
Spec == Init /\ [][Next]_vars

InvRenewOnce  == Part = "machine" => \A t \in renewed : t < tok \/ (t = tok /\ renewing)
InvMacWindow  == Part = "machine" => (tok \notin renewed => now <= created + lt)   \* renewed before the token expires
InvUsable     == refused = 0
\* a request issued during a renewal is sent with the token the renewal installed
InvGateUsesNew == \A m \in inflight : m.tok = m.cur      \* cur = the token that was current when it went out
=============================================================================
