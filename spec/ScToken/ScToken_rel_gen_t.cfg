\* thorough rows
CONSTANTS
  Lifetimes = {50 * i : i \in 1..400} \cup {1333, 1334, 2001, 2666, 2667, 3600000}
  Dev_RenewFloorSeconds = FALSE
  L = 2000
  Step = 500
  MaxTime = 6000
  Dev_ServerRekeyInPlace = FALSE
  Part = "relation"
INIT Init
NEXT Next
INVARIANTS InvRenewWindow InvEmit
CHECK_DEADLOCK FALSE
