\* demo: a request issued during a renewal is sent with the superseded token -> InvGateUsesNew
CONSTANTS
  Lifetimes = {1000}
  Dev_RenewFloorSeconds = FALSE
  L = 2000
  Step = 500
  MaxTime = 6000
  Dev_GateUsesOldToken = TRUE
  Dev_ServerRekeyInPlace = FALSE
  Part = "machine"
INIT Init
NEXT Next
INVARIANTS InvGateUsesNew
CHECK_DEADLOCK FALSE
