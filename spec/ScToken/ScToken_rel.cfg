\* contract arithmetic: every lifetime has its renewal inside [L/2, L); rows for the harness
CONSTANTS
  Lifetimes = {100 * i : i \in 1..100} \cup {1000 * i : i \in 11..60} \cup {1333, 1334, 2001, 2666, 2667, 3999, 4000, 3600000}
  Dev_RenewFloorSeconds = FALSE
  L = 2000
  Step = 500
  MaxTime = 6000
  Dev_ServerRekeyInPlace = FALSE
  Part = "relation"
INIT Init
NEXT Next
INVARIANTS InvRenewWindow InvEmit
CHECK_DEADLOCK FALSE
