\* contract arithmetic: every lifetime has its renewal inside [L/2, L); rows for the harness
CONSTANTS
  Lifetimes <- LifetimesQ
  Dev_RenewFloorSeconds = FALSE
  L = 2000
  Step = 500
  MaxTime = 6000
  Dev_GateUsesOldToken = FALSE
  Dev_ServerRekeyInPlace = FALSE
  Part = "relation"
INIT Init
NEXT Next
INVARIANTS InvRenewWindow InvEmit
CHECK_DEADLOCK FALSE
