----------------------------- MODULE ServerLive -----------------------------
(***************************************************************************)
(* C29 -- no client can crash or hang the server.                          *)
(*                                                                         *)
(* The server core as a state machine over request classes.  Standard      *)
(* start state (set up by the harness with ordinary requests): clients 1   *)
(* and 2 each have an activated session, one subscription and two          *)
(* monitored items (a node of the node namespace, a key of the map         *)
(* namespace).  A step is one request  [cl, svc, arg, sess]:           *)
(*   svc   every registered request type                                   *)
(*   arg   argument class (zero / sub-millisecond / negative / huge        *)
(*         intervals, own / foreign / unknown / stale ids, unknown nodes   *)
(*         and namespaces, empty and huge arrays, ...)                     *)
(*   sess  authentication token class: "own" (the client's session; nil    *)
(*         once it was closed), "none" (null token), "unknown"             *)
(* Contract (all Dev_* FALSE): every request is answered by a response or  *)
(* a service fault; InvAliveAndResponsive.                                 *)
(* As-is: each Dev_* flag is one root cause found in the code; the step    *)
(* that trips it kills the server process (panic in the dispatcher or in a *)
(* subscription goroutine).  TLC emits the request sequences together with *)
(* the outcome the specification expects for every step; the harness       *)
(* replays them on the real server and compares.                           *)
(*                                                                         *)
(*  Dev_TickerInterval  Subscription.run: time.NewTicker(ms * interval)    *)
(*                      with interval < 1 ms (zero, fraction, negative) or *)
(*                      so large that the Duration overflows               *)
(*  Dev_NoSessionCheck  CreateSubscription without a valid session creates *)
(*                      a subscription with Session = nil; its run loop    *)
(*                      dereferences s.Session.PublishRequests             *)
(*  Dev_NilSession      CreateMonitoredItems / SetMonitoringMode /         *)
(*                      DeleteMonitoredItems / DeleteSubscriptions         *)
(*                      dereference srv.Session(hdr) without a nil check   *)
(*  Dev_UnknownItem     SetMonitoringMode / DeleteMonitoredItems use       *)
(*                      Items[id] before looking at `ok`                   *)
(*  Dev_BlockedFanout   MonitoredItemService.ChangeNotification sends on   *)
(*                      Subscription.NotifyChannel (capacity 100) while    *)
(*                      holding Mu, in the dispatcher goroutine; a         *)
(*                      subscriber that stops reading blocks               *)
(*                      Subscription.run in SendResponse, the channel      *)
(*                      fills, the dispatcher blocks: nobody is served     *)
(*  Dev_EndedSubFanout  same blocking send, other trigger: a subscription  *)
(*                      whose run loop has ended (publish response to a    *)
(*                      dropped connection failed) waits in its deferred   *)
(*                      DeleteSubscription -> DeleteSub for Mu, which      *)
(*                      ChangeNotification holds while it waits for that   *)
(*                      subscription's full NotifyChannel: deadlock        *)
(***************************************************************************)
EXTENDS Naturals, Sequences, FiniteSets, TLC, Json

CONSTANTS MaxLen, Emit,
          Dev_TickerInterval, Dev_NoSessionCheck, Dev_NilSession, Dev_UnknownItem, Dev_BlockedFanout, Dev_EndedSubFanout,
          SvcFilter    \* set of services to generate steps for ({} = all)

VARIABLES alive,      \* server process is running and the dispatcher is not stuck
          sess,       \* sess[c]: the session of client c is known to the server
          sub,        \* sub[c]: the subscription of c set up at the start still exists
          item,       \* item[c]: the monitored item of c set up at the start still exists
          hist        \* steps taken, with the expected outcome of each

vars == <<alive, sess, sub, item, hist>>
\* exhaustive configurations look at the server state and the number of steps only
view == <<alive, sess, sub, item, Len(hist)>>
Clients == {1, 2}
Other(c) == 3 - c

Unsupported == {"FindServersOnNetwork", "RegisterServer", "RegisterServer2", "Cancel", "AddNodes", "AddReferences",
                "DeleteNodes", "DeleteReferences", "BrowseNext", "TranslateBrowsePathsToNodeIDs", "RegisterNodes",
                "UnregisterNodes", "QueryFirst", "QueryNext", "HistoryRead", "HistoryUpdate", "Call",
                "ModifySubscription", "SetPublishingMode", "Republish", "TransferSubscriptions",
                "ModifyMonitoredItems", "SetTriggering"}

Kinds ==
    \* publishing interval classes: every special IEEE-754 value of the Double field, and the counters' extremes
    {[svc |-> "CreateSubscription", arg |-> a] : a \in {"normal", "zero", "subms", "negative", "huge",
                                                         "nan", "posinf", "neginf", "negzero", "denormal",
                                                         "countsZero", "countsMax"}}
    \cup {[svc |-> "CreateMonitoredItems", arg |-> a] : a \in {"own", "foreign", "unknown", "ownEmpty", "ownUnknownNode", "ownHuge", "ownMapKey",
                                                           "ownSamplingNaN", "ownSamplingNegInf", "ownSamplingPosInf", "ownSamplingNeg",
                                                           "ownQueueMax"}}
    \cup {[svc |-> s, arg |-> a] : s \in {"SetMonitoringMode", "DeleteMonitoredItems", "DeleteSubscriptions"},
                                   a \in {"own", "foreign", "unknown", "empty"}}
    \cup {[svc |-> "Publish", arg |-> a] : a \in {"noacks", "unknownAck", "flood150"}}   \* flood: more than the session's queue holds
    \cup {[svc |-> s, arg |-> a] : s \in {"Read", "Write"}, a \in {"valid", "unknownNode", "unknownNs", "empty", "huge", "badAttr",
                                                                     "mapKey", "mapUnknownKey", "readOnly"}}
    \cup {[svc |-> "Read", arg |-> a] : a \in {"maxAgeNaN", "maxAgeNegInf", "maxAgePosInf", "maxAgeNeg", "maxAgeMax"}}
    \cup {[svc |-> "Write", arg |-> a] : a \in {"valueNaN", "valueInf", "tsExtreme"}}
    \cup {[svc |-> "Browse", arg |-> a] : a \in {"valid", "unknownNode", "unknownNs", "empty", "huge", "noSubtypes33", "unknownRefType"}}
    \cup {[svc |-> s, arg |-> "default"] : s \in {"CloseSession", "ActivateSession", "CreateSession", "GetEndpoints", "FindServers"}}
    \cup {[svc |-> s, arg |-> "default"] : s \in Unsupported}
    \* a scenario rather than a single request: the client subscribes to a node, queues publish
    \* requests, stops reading its socket, and the node is then written (large values) by the other client
    \cup {[svc |-> "SlowSubscriber", arg |-> "nonReading"]}
    \* the client subscribes to a node, leaves publish requests queued and drops its connection
    \* without deleting the subscription; the other client then changes the node many times at once
    \cup {[svc |-> "DeadSubscriber", arg |-> "queuedPublish"]}
    \* the server application itself changes a monitored key of its map namespace (MapNamespace.SetValue)
    \cup {[svc |-> "AppSetValue", arg |-> "monitoredKey"]}

SessClasses == {"own", "none", "unknown"}

UseKinds == IF SvcFilter = {} THEN Kinds ELSE {k \in Kinds : k.svc \in SvcFilter}

\* does the request carry a token the server knows?
Valid(c, s) == s = "own" /\ sess[c]

\* which of the start-state objects an id class refers to ("own" may be stale by now)
SubExists(c, a)  == IF a \in {"own", "ownEmpty", "ownUnknownNode", "ownHuge", "ownMapKey", "ownSamplingNaN", "ownSamplingNegInf",
                             "ownSamplingPosInf", "ownSamplingNeg", "ownQueueMax"} THEN sub[c]
                    ELSE IF a = "foreign" THEN sub[Other(c)] ELSE FALSE
ItemExists(c, a) == IF a = "own" THEN item[c] ELSE IF a = "foreign" THEN item[Other(c)] ELSE FALSE

\* The root cause (if any) that makes the request kill the server, as the code is written.
Why(c, k, s) ==
    LET v == Valid(c, s) IN
    CASE k.svc = "CreateSubscription" ->
            IF k.arg \in {"zero", "subms", "negative", "huge", "nan", "neginf", "negzero", "denormal"} /\ Dev_TickerInterval /\ (v \/ Dev_NoSessionCheck) THEN "Dev_TickerInterval"
            ELSE IF ~v /\ Dev_NoSessionCheck THEN "Dev_NoSessionCheck" ELSE ""
      [] k.svc = "CreateMonitoredItems" ->
            IF SubExists(c, k.arg) /\ ~v /\ Dev_NilSession THEN "Dev_NilSession" ELSE ""
      [] k.svc \in {"SetMonitoringMode", "DeleteMonitoredItems"} ->
            IF k.arg = "empty" THEN ""
            ELSE IF ~ItemExists(c, k.arg) /\ Dev_UnknownItem THEN "Dev_UnknownItem"
            ELSE IF ItemExists(c, k.arg) /\ ~v /\ Dev_NilSession THEN "Dev_NilSession" ELSE ""
      [] k.svc = "DeleteSubscriptions" ->
            IF SubExists(c, k.arg) /\ ~v /\ Dev_NilSession THEN "Dev_NilSession" ELSE ""
      [] k.svc = "SlowSubscriber" -> IF v /\ Dev_BlockedFanout THEN "Dev_BlockedFanout" ELSE ""
      [] k.svc = "DeadSubscriber" -> IF v /\ Dev_EndedSubFanout THEN "Dev_EndedSubFanout" ELSE ""
      [] OTHER -> ""

Step(c, k, s) ==
    /\ alive /\ Len(hist) < MaxLen
    /\ LET w == Why(c, k, s)
           v == Valid(c, s)
       IN /\ hist' = Append(hist, [cl |-> c, svc |-> k.svc, arg |-> k.arg, sess |-> s,
                                   exp |-> IF w = "" THEN "ok" ELSE IF w \in {"Dev_BlockedFanout", "Dev_EndedSubFanout"} THEN "hang" ELSE "crash",
                                   why |-> w])
          /\ alive' = (w = "")
          /\ sess' = IF k.svc = "CloseSession" /\ v THEN [sess EXCEPT ![c] = FALSE] ELSE sess
          /\ sub' = IF k.svc = "DeleteSubscriptions" /\ k.arg = "own" /\ v /\ w = "" THEN [sub EXCEPT ![c] = FALSE] ELSE sub
          /\ item' = CASE k.svc = "DeleteSubscriptions" /\ k.arg = "own" /\ v /\ w = "" -> [item EXCEPT ![c] = FALSE]
                       [] k.svc = "DeleteMonitoredItems" /\ k.arg = "own" /\ v /\ w = "" -> [item EXCEPT ![c] = FALSE]
                       \* the code deletes a foreign item as well (C32); no crash, but the item is gone
                       [] k.svc = "DeleteMonitoredItems" /\ k.arg = "foreign" /\ v /\ w = "" -> [item EXCEPT ![Other(c)] = FALSE]
                       [] OTHER -> item

Init == /\ alive = TRUE /\ sess = [c \in Clients |-> TRUE] /\ sub = [c \in Clients |-> TRUE]
        /\ item = [c \in Clients |-> TRUE] /\ hist = <<>>

Next == \E c \in Clients, k \in UseKinds, s \in SessClasses :
            (k.svc \in {"SlowSubscriber", "DeadSubscriber", "AppSetValue"} => s = "own") /\ Step(c, k, s)
Spec == Init /\ [][Next]_vars

\* C29: after every request sequence the server is alive and answers (the canary)
InvAliveAndResponsive == alive
\* an item only exists inside its subscription
InvItemInSub == \A c \in Clients : item[c] => sub[c]

Terminal == ~alive \/ Len(hist) = MaxLen
InvEmit == (Emit /\ Terminal) => PrintT("ROW " \o ToJson([steps |-> hist]))
=============================================================================
