CONSTANTS
  MaxLen = 3
  Emit = FALSE
  Dev_TickerInterval = FALSE
  Dev_NoSessionCheck = FALSE
  Dev_NilSession = FALSE
  Dev_UnknownItem = FALSE
  SvcFilter = {"CreateSubscription","CreateMonitoredItems","SetMonitoringMode","DeleteMonitoredItems","DeleteSubscriptions","CloseSession","Publish","Read"}
SPECIFICATION Spec
INVARIANTS InvAliveAndResponsive InvItemInSub
CHECK_DEADLOCK FALSE
