CONSTANTS
  MaxLen = 8
  Emit = FALSE
  Dev_TickerInterval = FALSE
  Dev_NoSessionCheck = FALSE
  Dev_NilSession = FALSE
  Dev_UnknownItem = FALSE
  Dev_BlockedFanout = FALSE
  Dev_EndedSubFanout = FALSE
  SvcFilter = {}
SPECIFICATION Spec
INVARIANTS InvAliveAndResponsive InvItemInSub
VIEW view
CHECK_DEADLOCK FALSE
