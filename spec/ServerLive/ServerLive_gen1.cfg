CONSTANTS
  MaxLen = 1
  Emit = TRUE
  Dev_TickerInterval = FALSE
  Dev_NoSessionCheck = FALSE
  Dev_NilSession = FALSE
  Dev_UnknownItem = FALSE
  Dev_BlockedFanout = FALSE
  Dev_EndedSubFanout = FALSE
  SvcFilter = {}
SPECIFICATION Spec
INVARIANT InvEmit
CHECK_DEADLOCK FALSE
