CONSTANTS
  MaxLen = 2
  Emit = FALSE
  Dev_TickerInterval = FALSE
  Dev_NoSessionCheck = FALSE
  Dev_NilSession = FALSE
  Dev_UnknownItem = FALSE
  SvcFilter = {}
SPECIFICATION Spec
INVARIANTS InvAliveAndResponsive InvItemInSub
CHECK_DEADLOCK FALSE
