CONSTANTS
  MaxLen = 3
  Emit = TRUE
  Dev_TickerInterval = FALSE
  Dev_NoSessionCheck = FALSE
  Dev_NilSession = FALSE
  Dev_UnknownItem = FALSE
  Dev_BlockedFanout = FALSE
  Dev_EndedSubFanout = FALSE
  SvcFilter = {"CreateSubscription","CreateMonitoredItems","SetMonitoringMode","DeleteMonitoredItems","DeleteSubscriptions","CloseSession","Publish","Read","Browse","Write","ActivateSession"}
SPECIFICATION Spec
INVARIANT InvEmit
CHECK_DEADLOCK FALSE
