CONSTANTS
  MaxLen = 2
  Emit = FALSE
  Dev_TickerInterval = TRUE
  Dev_NoSessionCheck = TRUE
  Dev_NilSession = TRUE
  Dev_UnknownItem = TRUE
  SvcFilter = {}
SPECIFICATION Spec
INVARIANTS InvAliveAndResponsive
CHECK_DEADLOCK FALSE
