CONSTANTS
  MaxLen = 4
  Emit = FALSE
  Dev_TickerInterval = TRUE
  Dev_NoSessionCheck = TRUE
  Dev_NilSession = TRUE
  Dev_UnknownItem = TRUE
  Dev_BlockedFanout = TRUE
  Dev_EndedSubFanout = TRUE
  SvcFilter = {}
SPECIFICATION Spec
INVARIANTS InvAliveAndResponsive
VIEW view
CHECK_DEADLOCK FALSE
