CONSTANTS
  Emit = FALSE
  Dev_SwapLocalRemote = FALSE
  Dev_WrongOffset = FALSE
  Dev_NoPadDeduction = TRUE
  Dev_MinKey128 = FALSE
INIT InitAsym
NEXT NextAsym
INVARIANT InvAdmission
INVARIANT InvBlocks
CHECK_DEADLOCK FALSE
