CONSTANTS
  Emit = TRUE
  Dev_SwapLocalRemote = FALSE
  Dev_WrongOffset = FALSE
  Dev_NoPadDeduction = FALSE
  Dev_MinKey128 = FALSE
INIT InitAsym
NEXT NextAsym
INVARIANT InvAdmission
INVARIANT InvBlocks
INVARIANT InvEmitAsym
CHECK_DEADLOCK FALSE
