------------------------------- MODULE Crypto -------------------------------
(***************************************************************************)
(* S13 Crypto -- C14 (symmetric keys) and C15 (asymmetric algorithms).     *)
(*                                                                         *)
(* C14.  Keys are SYMBOLIC terms K(secret, seed, off, len): "len bytes at  *)
(* offset off of P_hash(secret, seed)", secret/seed being the client or    *)
(* the server nonce (Part 6 6.7.5, table "Cryptography key generation      *)
(* parameters").  A small machine models the life of a channel's keys as   *)
(* the code does it: both sides call Symmetric(localNonce, remoteNonce)    *)
(* (Derive), protect messages with their send keys (Protect), the network  *)
(* delivers a message to the peer or -- the adversary -- back to its       *)
(* sender (Deliver / Reflect), the receiver opens it with its receive keys *)
(* (Open: accepted iff the key terms are equal).                           *)
(*   InvSpecKeys     the installed keys are the Part 6 terms               *)
(*   InvOffsets      signing key, encrypting key, IV are disjoint ranges   *)
(*   InvDelivery     what the peer protected is accepted                   *)
(*   InvSeparation   reflected traffic is rejected (nonces differ)         *)
(* Rows: per (policy, side, nonce shape) the six key terms and the         *)
(* accept/reject matrix; the harness evaluates the terms with an           *)
(* independent P_SHA (harness/refcodec) on concrete nonces and compares    *)
(* with uapolicy.Symmetric bit by bit.                                     *)
(*                                                                         *)
(* C15.  Relation spec: key admission (Part 7 limits), block structure of  *)
(* RSA encryption (CipherLen, every block within the scheme's limit),      *)
(* signature acceptance matrix.  One state per case; every state is a row  *)
(* replayed on uapolicy.Asymmetric and cross-checked with the standard     *)
(* library through harness/refcodec.                                       *)
(***************************************************************************)
EXTENDS PolicyTables, Sequences, FiniteSets, Json

CONSTANTS
  Emit,                 \* TRUE: print rows
  Dev_SwapLocalRemote,  \* deviation demo (C14): protect with the "local" key set
  Dev_WrongOffset,      \* deviation demo (C14): encrypting key taken at offset 0
  Dev_NoPadDeduction,   \* deviation demo (C15): plaintext block = key size
  Dev_MinKey128         \* deviation demo (C15): Aes128_Sha256_RsaOaep admits 1024 bit keys

SymPolicies == Policies \ {"None"}
Sides == {"client", "server"}
Other(s) == IF s = "client" THEN "server" ELSE "client"

---------------------------------------------------------------------------
\* C14: key terms
K(secret, seed, off, len, hash) == [secret |-> secret, seed |-> seed, off |-> off, len |-> len, hash |-> hash]

\* Part 6: the keys that secure messages SENT BY side s.
\*   Client*: secret = ServerNonce, seed = ClientNonce;  Server*: secret = ClientNonce, seed = ServerNonce
SpecKeys(pol, s) ==
  LET t == SymTab[pol]
      secret == Other(s)
      seed == s
  IN [sig |-> K(secret, seed, 0, t.sigKey, t.hash),
      enc |-> K(secret, seed, t.sigKey, t.encKey, t.hash),
      iv  |-> K(secret, seed, t.sigKey + t.encKey, t.iv, t.hash)]

\* The implementation (uapolicy/policy*.go newXSymmetric): generateKeys(HMAC(secret), seed, ...)
\*   localKeys  = generateKeys(secret = localNonce,  seed = remoteNonce)  -> decrypt / verify
\*   remoteKeys = generateKeys(secret = remoteNonce, seed = localNonce)   -> encrypt / sign
Gen(pol, secret, seed) ==
  LET t == SymTab[pol] IN
  [sig |-> K(secret, seed, 0, t.sigKey, t.hash),
   enc |-> K(secret, seed, IF Dev_WrongOffset THEN 0 ELSE t.sigKey, t.encKey, t.hash),
   iv  |-> K(secret, seed, t.sigKey + t.encKey, t.iv, t.hash)]
ImplSend(pol, s) == IF Dev_SwapLocalRemote THEN Gen(pol, s, Other(s)) ELSE Gen(pol, Other(s), s)
ImplRecv(pol, s) == Gen(pol, s, Other(s))

NoKeys == [sig |-> K("-", "-", 0, 0, "-"), enc |-> K("-", "-", 0, 0, "-"), iv |-> K("-", "-", 0, 0, "-")]

\* nonce shapes: equal nonces make both directions' terms denote the same bytes
Shapes == {"zero", "ff", "counter", "random"}
SameBytes(k1, k2, eq) ==   \* do two key terms denote the same bytes (eq: both nonces are equal)?
  /\ k1.off = k2.off /\ k1.len = k2.len /\ k1.hash = k2.hash
  /\ (eq \/ (k1.secret = k2.secret /\ k1.seed = k2.seed))
SameKeys(a, b, eq) == SameBytes(a.sig, b.sig, eq) /\ SameBytes(a.enc, b.enc, eq) /\ SameBytes(a.iv, b.iv, eq)

VARIABLES pol, cshape, sshape, nlen,  \* configuration: policy, nonce shapes, nonce length class
          send, recv,                 \* installed key sets per side ("none" before Derive)
          wire,                       \* protected messages in flight: [by, keys]
          opened,                     \* history of Open results: [at, by, ok]
          mode                        \* "sym" machine | "asym" relation rows
\* asymmetric case (one state per case)
VARIABLES acase
vars == <<pol, cshape, sshape, nlen, send, recv, wire, opened, mode, acase>>

NoncesEqual == cshape = sshape /\ cshape # "random"
NonceLens == {"policy", "short", "long"}

InitSym == /\ mode = "sym"
           /\ pol \in SymPolicies
           /\ cshape \in Shapes /\ sshape \in Shapes
           /\ nlen \in NonceLens
           /\ send = [s \in Sides |-> NoKeys] /\ recv = [s \in Sides |-> NoKeys]
           /\ wire = {} /\ opened = {}
           /\ acase = [kind |-> "none", pol |-> pol]

Derive(s) == /\ send[s] = NoKeys
             /\ send' = [send EXCEPT ![s] = ImplSend(pol, s)]
             /\ recv' = [recv EXCEPT ![s] = ImplRecv(pol, s)]
             /\ UNCHANGED <<pol, cshape, sshape, nlen, wire, opened, mode, acase>>

Protect(s) == /\ send[s] # NoKeys
              /\ wire' = wire \cup {[by |-> s, keys |-> send[s]]}
              /\ UNCHANGED <<pol, cshape, sshape, nlen, send, recv, opened, mode, acase>>

\* deliver m to side at (at = Other(m.by): normal delivery; at = m.by: reflection)
Open(m, at) == /\ recv[at] # NoKeys
               /\ opened' = opened \cup {[at |-> at, by |-> m.by, ok |-> SameKeys(m.keys, recv[at], NoncesEqual)]}
               /\ UNCHANGED <<pol, cshape, sshape, nlen, send, recv, wire, mode, acase>>

NextSym == \/ \E s \in Sides : Derive(s) \/ Protect(s)
           \/ \E m \in wire, at \in Sides : Open(m, at)

InvSpecKeys == \A s \in Sides : send[s] # NoKeys =>
                 /\ send[s] = SpecKeys(pol, s)
                 /\ recv[s] = SpecKeys(pol, Other(s))
InvOffsets  == \A s \in Sides : send[s] # NoKeys =>
                 LET k == send[s] IN
                 /\ k.sig.off = 0 /\ k.enc.off = k.sig.off + k.sig.len /\ k.iv.off = k.enc.off + k.enc.len
                 /\ k.sig.len = SymTab[pol].sigKey /\ k.enc.len = SymTab[pol].encKey /\ k.iv.len = SymTab[pol].iv
InvDelivery == \A o \in opened : o.at # o.by => o.ok
InvSeparation == \A o \in opened : (o.at = o.by /\ ~NoncesEqual) => ~o.ok

\* row: everything the harness needs, computed from the specification (not from the machine)
SymRow == [kind |-> "sym", pol |-> pol, hash |-> SymTab[pol].hash, sigLen |-> SymTab[pol].sig,
           nonceLen |-> SymTab[pol].nonce, nlen |-> nlen, cshape |-> cshape, sshape |-> sshape,
           clientSend |-> SpecKeys(pol, "client"), serverSend |-> SpecKeys(pol, "server"),
           noncesEqual |-> NoncesEqual,
           opens |-> {[at |-> at, by |-> by, ok |-> SameKeys(SpecKeys(pol, by), SpecKeys(pol, Other(at)), NoncesEqual)]
                        : at \in Sides, by \in Sides}]
InvEmitSym == (Emit /\ mode = "sym" /\ send["client"] = NoKeys /\ send["server"] = NoKeys)
                => PrintT("ROW " \o ToJson(SymRow))

---------------------------------------------------------------------------
\* C15
KeyBytes   == {64, 128, 256, 384, 512, 1024}        \* 512 .. 8192 bit moduli
AsymPols   == DOMAIN AsymTab
MinKey(p)  == IF Dev_MinKey128 /\ p = "Aes128_Sha256_RsaOaep" THEN 128 ELSE AsymTab[p].minKey
Admit(p, k) == k >= MinKey(p) /\ k <= AsymTab[p].maxKey          \* implementation's admission
SpecAdmit(p, k) == k >= AsymTab[p].minKey /\ k <= AsymTab[p].maxKey   \* Part 7 limits

\* block structure of the encryption of len bytes for a receiver key of rk bytes
PB(p, rk)  == IF Dev_NoPadDeduction THEN rk ELSE rk - AsymTab[p].encPad   \* plaintext block of the sender
Blocks(p, rk, len) == (len + PB(p, rk) - 1) \div PB(p, rk)
CipherLen(p, rk, len) == Blocks(p, rk, len) * rk
LastBlock(p, rk, len) == IF len = 0 THEN 0 ELSE len - (Blocks(p, rk, len) - 1) * PB(p, rk)
LenClasses == {"0", "1", "pb-1", "pb", "pb+1", "2pb", "3pb-1", "3pb+1"}
LenOf(c, p, rk) == LET b == rk - AsymTab[p].encPad IN
  CASE c = "0" -> 0 [] c = "1" -> 1 [] c = "pb-1" -> b - 1 [] c = "pb" -> b [] c = "pb+1" -> b + 1
    [] c = "2pb" -> 2 * b [] c = "3pb-1" -> 3 * b - 1 [] c = "3pb+1" -> 3 * b + 1

SigCases == {"good", "other-message", "sig-bit-flipped", "wrong-key", "sig-truncated", "empty-message"}
SigVerifies(c) == c \in {"good", "empty-message"}

OKKeys(p) == {k \in KeyBytes : SpecAdmit(p, k)}
ACases ==
       {[kind |-> "admit", pol |-> p, lk |-> lk, rk |-> rk] : p \in AsymPols, lk \in KeyBytes \cup {0}, rk \in KeyBytes \cup {0}}
  \cup UNION {{[kind |-> "crypt", pol |-> p, rk |-> rk, len |-> LenOf(c, p, rk), lc |-> c]
                  : rk \in OKKeys(p), c \in LenClasses} : p \in AsymPols}
  \cup UNION {{[kind |-> "sign", pol |-> p, lk |-> lk, sc |-> c]
                  : lk \in OKKeys(p), c \in SigCases} : p \in AsymPols}

InitAsym == /\ mode = "asym"
            /\ acase \in ACases
            /\ pol = acase.pol /\ cshape = "zero" /\ sshape = "zero" /\ nlen = "policy"
            /\ send = [s \in Sides |-> NoKeys] /\ recv = [s \in Sides |-> NoKeys]
            /\ wire = {} /\ opened = {}
NextAsym == FALSE /\ UNCHANGED vars

\* 0 = no key given (nil): admitted, nothing to check
AdmitBoth(p, lk, rk) == (lk = 0 \/ Admit(p, lk)) /\ (rk = 0 \/ Admit(p, rk))
InvAdmission == (mode = "asym" /\ acase.kind = "admit") =>
                  (AdmitBoth(acase.pol, acase.lk, acase.rk)
                     <=> ((acase.lk = 0 \/ SpecAdmit(acase.pol, acase.lk)) /\ (acase.rk = 0 \/ SpecAdmit(acase.pol, acase.rk))))
\* every plaintext block is within the limit of the encryption scheme, the blocks add up to len,
\* the ciphertext is a whole number of key-size blocks
InvBlocks == (mode = "asym" /\ acase.kind = "crypt") =>
               LET p == acase.pol  rk == acase.rk  len == acase.len IN
               /\ PB(p, rk) > 0 /\ PB(p, rk) <= rk - AsymTab[p].encPad
               /\ LastBlock(p, rk, len) <= PB(p, rk) /\ (len > 0 => LastBlock(p, rk, len) > 0)
               /\ (Blocks(p, rk, len) - 1) * PB(p, rk) + LastBlock(p, rk, len) = len \/ len = 0
               /\ CipherLen(p, rk, len) % rk = 0
               /\ (len = 0 <=> CipherLen(p, rk, len) = 0)

ARow == IF acase.kind = "admit"
        THEN acase @@ [admit |-> (acase.lk = 0 \/ SpecAdmit(acase.pol, acase.lk)) /\ (acase.rk = 0 \/ SpecAdmit(acase.pol, acase.rk))]
        ELSE IF acase.kind = "crypt"
        THEN acase @@ [enc |-> AsymTab[acase.pol].enc, encPad |-> AsymTab[acase.pol].encPad,
                       maxBlock |-> acase.rk - AsymTab[acase.pol].encPad,
                       minCipher |-> ((acase.len + (acase.rk - AsymTab[acase.pol].encPad) - 1) \div (acase.rk - AsymTab[acase.pol].encPad)) * acase.rk]
        ELSE acase @@ [sigAlg |-> AsymTab[acase.pol].sigAlg, sigLen |-> acase.lk, verifies |-> SigVerifies(acase.sc)]
InvEmitAsym == (Emit /\ mode = "asym") => PrintT("ROW " \o ToJson(ARow))

ASSUME Emit => PrintT("ROW " \o ToJson([table |-> "policy", sym |-> SymTab, asym |-> AsymTab]))
=============================================================================
