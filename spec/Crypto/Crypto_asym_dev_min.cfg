CONSTANTS
  Emit = FALSE
  Dev_SwapLocalRemote = FALSE
  Dev_WrongOffset = FALSE
  Dev_NoPadDeduction = FALSE
  Dev_MinKey128 = TRUE
INIT InitAsym
NEXT NextAsym
INVARIANT InvAdmission
INVARIANT InvBlocks
CHECK_DEADLOCK FALSE
