CONSTANTS
  Emit = FALSE
  Dev_SwapLocalRemote = FALSE
  Dev_WrongOffset = TRUE
  Dev_NoPadDeduction = FALSE
  Dev_MinKey128 = FALSE
INIT InitSym
NEXT NextSym
INVARIANT InvSpecKeys
INVARIANT InvOffsets
INVARIANT InvDelivery
INVARIANT InvSeparation
CHECK_DEADLOCK FALSE
