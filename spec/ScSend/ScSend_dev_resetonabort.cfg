\* demo: an aborted multi-chunk send resets the counter although chunks were written -> InvSeqStep
CONSTANTS
  Senders = {"p1", "p2"}
  MaxChunks = 2
  Seq0 = 10
  MaxSeq = 13
  RenewMayFail = TRUE
  Gen = FALSE
  MayAbort = TRUE
  Dev_ResetSeqOnAbort = TRUE
  Dev_GateGap = FALSE
  Dev_FailedRenewSeq = FALSE
INIT Init
NEXT Next
VIEW view
INVARIANTS InvSeqStep
CHECK_DEADLOCK FALSE
