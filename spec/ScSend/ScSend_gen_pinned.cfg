\* pinned schedules: p1 then p2 then the renewal, <= 3 chunks, every ending of a message (exhaustive, seed-independent)
CONSTANTS
  Senders = {"p1", "p2"}
  MaxChunks = 3
  Seq0 = 10
  MaxSeq = 100
  RenewMayFail = FALSE
  Gen = TRUE
  MayAbort = TRUE
  MayFailEarly = TRUE
  Dev_SeqConsumedOnEarlyFailure = FALSE
  Dev_ResetSeqOnAbort = FALSE
  Dev_GateGap = TRUE
  Dev_FailedRenewSeq = FALSE
INIT Init
NEXT Next
INVARIANTS InvEmit
CONSTRAINT Pinned
CHECK_DEADLOCK FALSE
