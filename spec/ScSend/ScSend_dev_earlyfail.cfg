\* demo (repaired in d8b779a): a send that fails before its first chunk keeps its sequence number -> gap, InvSeqStep
CONSTANTS
  Senders = {"p1", "p2"}
  MaxChunks = 2
  Seq0 = 10
  MaxSeq = 13
  RenewMayFail = TRUE
  Gen = FALSE
  MayAbort = TRUE
  MayFailEarly = TRUE
  Dev_SeqConsumedOnEarlyFailure = TRUE
  Dev_ResetSeqOnAbort = FALSE
  Dev_GateGap = FALSE
  Dev_FailedRenewSeq = FALSE
INIT Init
NEXT Next
VIEW view
INVARIANTS InvSeqStep
CHECK_DEADLOCK FALSE
