CONSTANTS AsIs = TRUE
INIT Init
NEXT Next
INVARIANT InvEmit
CHECK_DEADLOCK FALSE
