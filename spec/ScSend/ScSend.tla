------------------------------- MODULE ScSend -------------------------------
(***************************************************************************)
(* C11 -- outgoing sequence numbers of a client secure channel under       *)
(* concurrent senders and token renewals (uasc/secure_channel.go,          *)
(* secure_channel_instance.go).  One label per critical section; every     *)
(* label that is followed by a verif hook names it (the forced-schedule    *)
(* harness releases a goroutine from one hook to the next):                *)
(*                                                                         *)
(* sender p  SendRequestWithTimeout                                        *)
(*   c0 the call is issued (no hook: a call that finds the gate locked is   *)
(*      blocked inside waitIfLock)                       -> "call"          *)
(*   c1 reqLocker.waitIfLock()                          -> hook send.gate  *)
(*   c2 getActiveChannelInstance(), nextRequestID()     -> hook send.enter *)
(*   c4 pendingReq.Add(1)                               -> hook send.add   *)
(*   c5 instance.Lock()                                 -> hook send.locked*)
(*   c6 newRequestMessage: nextSequenceNumber()         -> hook chunk.write*)
(*   c8 write chunk j; number chunk j+1 (-> chunk.write) or unlock, Done   *)
(*      or (c6): the context had ended before the call: newRequestMessage  *)
(*      takes a number, the chunk loop returns the error before the first  *)
(*      chunk.write; the number is handed back (nothing reached the wire)  *)
(*      -> "fail0"                                                         *)
(*      or: write chunk j, then the context has ended: the loop returns    *)
(*      the error before chunk j+1 is numbered (unlock, Done) -> "abort"   *)
(* renewer   renew -> open -> handleOpenSecureChannelResponse              *)
(*   r1 reqLocker.lock()                                -> renew.locked    *)
(*   r2 pendingReq.Wait()                               -> renew.waited    *)
(*   r3 instance.Lock() (old instance)                  -> renew.instlocked*)
(*   r5 new instance, copy sequenceNumber               -> open.copied     *)
(*   r6 number the OPN request on the new instance      -> chunk.write     *)
(*   r7 write OPN; response: install new active instance-> open.installed  *)
(*      or: no response in time (renewal fails)         -> wait.timeout    *)
(*   r10 unlock old instance, reqLocker.unlock()                           *)
(*                                                                         *)
(* Contract: a sender is counted in pendingReq atomically with passing the *)
(* gate, and a failed renewal hands the consumed sequence numbers back to  *)
(* the old instance.  Deviations of the code as it is:                     *)
(*   Dev_GateGap          counted only at c4 (after the instance was read) *)
(*   Dev_FailedRenewSeq   the old instance's counter is not advanced when  *)
(*                        the renewal fails after its OPN was written      *)
(*                        (repaired in 61b5747; kept as a demo, FALSE in   *)
(*                        the as-is generation configurations)             *)
(***************************************************************************)
EXTENDS Naturals, Sequences, FiniteSets, TLC, Json

CONSTANTS Senders,        \* sender goroutines, e.g. {"p1", "p2"}
          MaxChunks,      \* chunks per message 1..MaxChunks
          Seq0, MaxSeq,   \* first counter value; the counter wraps MaxSeq -> 1 (MaxUint32-1024 in the code)
          RenewMayFail,   \* the OPN response may fail to arrive in time
          Gen,            \* TRUE: record the schedule in hist and print terminal behaviours
          MayAbort,       \* a sender's context may end in the middle of a multi-chunk message
          MayFailEarly,   \* a sender's context may have ended before anything of its message is written
          Dev_GateGap, Dev_FailedRenewSeq,
          Dev_ResetSeqOnAbort,  \* (demo) an aborted send hands "its" sequence numbers back although chunks were written
          Dev_SeqConsumedOnEarlyFailure \* (demo, repaired in d8b779a) a send that fails before its first chunk keeps the number it took

Procs == Senders \cup {"renew"}
Insts == {1, 2}
NextSeq(n) == IF n + 1 > MaxSeq THEN 1 ELSE n + 1

VARIABLES gate,      \* reqLocker.bLock
          pending,   \* pendingReq counter
          instLock,  \* [inst -> holder or "none"]
          seq,       \* [inst -> last sequence number used]
          active,    \* instance used for new requests
          pc, myInst, left, cur,
          first,     \* [sender -> counter of its instance before its message was numbered]
          late,      \* senders whose call was issued while a renewal held the gate
          wire,      \* chunks written by the client: [inst, seq, who, type, last]
          hist
vars == <<gate, pending, instLock, seq, active, pc, myInst, left, cur, first, late, wire, hist>>
view == <<gate, pending, instLock, seq, active, pc, myInst, left, cur, first, late, wire>>

Init == /\ gate = FALSE /\ pending = 0
        /\ instLock = [i \in Insts |-> "none"]
        /\ seq = [i \in Insts |-> IF i = 1 THEN Seq0 ELSE 0]
        /\ active = 1
        /\ pc = [p \in Procs |-> IF p = "renew" THEN "r1" ELSE "c0"] /\ late = {}
        /\ myInst = [p \in Procs |-> 0]
        /\ left = [p \in Procs |-> 0]
        /\ cur = [p \in Procs |-> 0] /\ first = [p \in Procs |-> 0]
        /\ wire = <<>> /\ hist = <<>>

Goto(p, l) == pc' = [pc EXCEPT ![p] = l]
Rec(p, hook) == hist' = IF Gen THEN Append(hist, [p |-> p, to |-> hook]) ELSE hist

R == "renew"

\* ---- sender ----
\* SendRequestWithTimeout is called. A call issued while the renewal holds the gate waits there and
\* reads the active instance only afterwards (c2): it is sent on the instance the renewal installed.
C0(p) == /\ pc[p] = "c0"
         /\ late' = IF gate THEN late \cup {p} ELSE late
         /\ Goto(p, "c1") /\ Rec(p, "call")
         /\ UNCHANGED <<first, gate, pending, instLock, seq, active, myInst, left, cur, wire>>

C1(p) == /\ UNCHANGED late
         /\ pc[p] = "c1" /\ gate = FALSE
         /\ IF Dev_GateGap THEN UNCHANGED pending ELSE pending' = pending + 1
         /\ Goto(p, "c2") /\ Rec(p, "send.gate")
         /\ UNCHANGED <<first, gate, instLock, seq, active, myInst, left, cur, wire>>
C2(p) == /\ UNCHANGED late
         /\ pc[p] = "c2"
         /\ pc[R] # "r10"          \* instancesMu is held from the install to the return of the response handler
         /\ myInst' = [myInst EXCEPT ![p] = active]
         /\ Goto(p, "c4") /\ Rec(p, "send.enter")
         /\ UNCHANGED <<first, gate, pending, instLock, seq, active, left, cur, wire>>
C4(p) == /\ UNCHANGED late
         /\ pc[p] = "c4"
         /\ IF Dev_GateGap THEN pending' = pending + 1 ELSE UNCHANGED pending
         /\ Goto(p, "c5") /\ Rec(p, "send.add")
         /\ UNCHANGED <<first, gate, instLock, seq, active, myInst, left, cur, wire>>
C5(p) == /\ UNCHANGED late
         /\ pc[p] = "c5" /\ instLock[myInst[p]] = "none"
         /\ instLock' = [instLock EXCEPT ![myInst[p]] = p]
         /\ Goto(p, "c6") /\ Rec(p, "send.locked")
         /\ UNCHANGED <<first, gate, pending, seq, active, myInst, left, cur, wire>>
C6(p) == /\ UNCHANGED late
         /\ pc[p] = "c6"
         /\ \E n \in 1..MaxChunks : /\ left' = [left EXCEPT ![p] = n]
                                   /\ hist' = IF Gen THEN Append(hist, [p |-> p, to |-> "chunk.write", n |-> n]) ELSE hist
         /\ seq' = [seq EXCEPT ![myInst[p]] = NextSeq(@)]
         /\ cur' = [cur EXCEPT ![p] = NextSeq(seq[myInst[p]])]
         /\ first' = [first EXCEPT ![p] = seq[myInst[p]]]
         /\ Goto(p, "c8")
         /\ UNCHANGED <<gate, pending, instLock, active, myInst, wire>>
C8(p) == /\ UNCHANGED late
         /\ pc[p] = "c8" /\ left[p] > 0
         /\ wire' = Append(wire, [inst |-> myInst[p], seq |-> cur[p], who |-> p, type |-> "MSG", last |-> left[p] = 1])
         /\ left' = [left EXCEPT ![p] = @ - 1]
         /\ IF left[p] = 1
            THEN /\ instLock' = [instLock EXCEPT ![myInst[p]] = "none"]
                 /\ pending' = pending - 1
                 /\ Goto(p, "done") /\ Rec(p, "done")
                 /\ UNCHANGED <<seq, cur>>
            ELSE /\ seq' = [seq EXCEPT ![myInst[p]] = NextSeq(@)]
                 /\ cur' = [cur EXCEPT ![p] = NextSeq(seq[myInst[p]])]
                 /\ Rec(p, "chunk.write")
                 /\ UNCHANGED <<instLock, pending, pc>>
         /\ UNCHANGED <<first, gate, active, myInst>>

\* the sender's context had already ended (or the request id is a duplicate, or encoding fails):
\* the message is numbered, nothing is written, the call returns the error; the counter goes back
C6fail(p) ==
         /\ UNCHANGED late
         /\ MayFailEarly /\ pc[p] = "c6"
         /\ seq' = IF Dev_SeqConsumedOnEarlyFailure THEN [seq EXCEPT ![myInst[p]] = NextSeq(@)] ELSE seq
         /\ instLock' = [instLock EXCEPT ![myInst[p]] = "none"]
         /\ pending' = pending - 1
         /\ Goto(p, "done") /\ Rec(p, "fail0")
         /\ UNCHANGED <<first, gate, active, myInst, left, cur, wire>>

\* the context ends while the message is being written: chunk j goes out, the loop's ctx check
\* stops before chunk j+1 is numbered; the numbers used so far stay used
C8abort(p) ==
         /\ UNCHANGED late
         /\ MayAbort /\ pc[p] = "c8" /\ left[p] > 1
         /\ wire' = Append(wire, [inst |-> myInst[p], seq |-> cur[p], who |-> p, type |-> "MSG", last |-> TRUE])
         /\ left' = [left EXCEPT ![p] = 0]
         /\ instLock' = [instLock EXCEPT ![myInst[p]] = "none"]
         /\ pending' = pending - 1
         /\ seq' = IF Dev_ResetSeqOnAbort
                    THEN [seq EXCEPT ![myInst[p]] = first[p]]      \* as if nothing had been sent
                    ELSE seq
         /\ Goto(p, "done") /\ Rec(p, "abort")
         /\ UNCHANGED <<gate, active, myInst, cur, first>>

\* ---- renewer ----
R1 == /\ UNCHANGED late
      /\ pc[R] = "r1" /\ gate' = TRUE /\ Goto(R, "r2") /\ Rec(R, "renew.locked")
      /\ UNCHANGED <<first, pending, instLock, seq, active, myInst, left, cur, wire>>
R2 == /\ UNCHANGED late
      /\ pc[R] = "r2" /\ pending = 0 /\ Goto(R, "r3") /\ Rec(R, "renew.waited")
      /\ UNCHANGED <<first, gate, pending, instLock, seq, active, myInst, left, cur, wire>>
R3 == /\ UNCHANGED late
      /\ pc[R] = "r3" /\ instLock[1] = "none"
      /\ instLock' = [instLock EXCEPT ![1] = R] /\ Goto(R, "r5") /\ Rec(R, "renew.instlocked")
      /\ UNCHANGED <<first, gate, pending, seq, active, myInst, left, cur, wire>>
R5 == /\ UNCHANGED late
      /\ pc[R] = "r5" /\ seq' = [seq EXCEPT ![2] = seq[1]] /\ Goto(R, "r6") /\ Rec(R, "open.copied")
      /\ UNCHANGED <<first, gate, pending, instLock, active, myInst, left, cur, wire>>
R6 == /\ UNCHANGED late
      /\ pc[R] = "r6"                 \* the OPN request is numbered on the new instance
      /\ seq' = [seq EXCEPT ![2] = NextSeq(@)]
      /\ cur' = [cur EXCEPT ![R] = NextSeq(seq[2])]
      /\ Goto(R, "r7") /\ Rec(R, "chunk.write")
      /\ UNCHANGED <<first, gate, pending, instLock, active, myInst, left, wire>>
R7ok == /\ UNCHANGED late
        /\ pc[R] = "r7"               \* OPN written, response handled: the new instance becomes active
        /\ wire' = Append(wire, [inst |-> 2, seq |-> cur[R], who |-> R, type |-> "OPN", last |-> TRUE])
        /\ active' = 2 /\ Goto(R, "r10") /\ Rec(R, "open.installed")
        /\ UNCHANGED <<first, gate, pending, instLock, seq, myInst, left, cur>>
R7fail == /\ UNCHANGED late
          /\ pc[R] = "r7" /\ RenewMayFail   \* OPN written, no response in time: the old instance stays active
          /\ wire' = Append(wire, [inst |-> 2, seq |-> cur[R], who |-> R, type |-> "OPN", last |-> TRUE])
          /\ seq' = IF Dev_FailedRenewSeq THEN seq ELSE [seq EXCEPT ![1] = seq[2]]
          /\ Goto(R, "r10") /\ Rec(R, "wait.timeout")
          /\ UNCHANGED <<first, gate, pending, instLock, active, myInst, left, cur>>
R10 == /\ UNCHANGED late
       /\ pc[R] = "r10" /\ instLock' = [instLock EXCEPT ![1] = "none"] /\ gate' = FALSE
       /\ Goto(R, "done") /\ Rec(R, "done")
       /\ UNCHANGED <<first, pending, seq, active, myInst, left, cur, wire>>

Next == \/ \E p \in Senders : C0(p) \/ C1(p) \/ C2(p) \/ C4(p) \/ C5(p) \/ C6(p) \/ C6fail(p) \/ C8(p) \/ C8abort(p)
        \/ R1 \/ R2 \/ R3 \/ R5 \/ R6 \/ R7ok \/ R7fail \/ R10

Spec == Init /\ [][Next]_vars

---------------------------------------------------------------------------
\* consecutive chunks differ by exactly one; the only other step is the wrap
StepOK(a, b)  == b = a + 1 \/ (a >= MaxSeq /\ b = 1)
InvSeqStep    == \A i \in 1..Len(wire) - 1 : StepOK(wire[i].seq, wire[i + 1].seq)
InvContiguous == \A i \in 1..Len(wire) - 1 : ~wire[i].last => wire[i + 1].who = wire[i].who
\* WaitGroup discipline: Add from zero must not race with Wait
InvNoMisuse   == ~(\E p \in Senders : pc[p] = "c4" /\ Dev_GateGap /\ pc[R] = "r2" /\ pending = 0)
\* a chunk is numbered and written on the instance that is active, or the renewal is still in flight
InvFreshInst  == \A p \in Senders : pc[p] \in {"c5", "c6", "c8"} => (myInst[p] = active \/ pc[R] \in {"r7", "r10"})

\* a request issued during a renewal is sent with the token the renewal installed
InvLateOnNew  == \A i \in 1..Len(wire) : (wire[i].who \in late /\ active = 2 /\ pc[R] = "done") => wire[i].inst = 2

\* state constraint of the pinned generation: the senders run one after the other (in the order of
\* their names), the renewal last -- every way a message can end (whole, failed before its first chunk,
\* aborted after k chunks) followed by a further message on the same instance, seed-independent
Pinned == /\ pc["p2"] # "c0" => pc["p1"] = "done"
          /\ pc[R] # "r1" => \A p \in Senders : pc[p] = "done"

Terminal == \A p \in Procs : pc[p] = "done"
Beh == [sched |-> hist, wire |-> wire, seq0 |-> Seq0, late |-> late,
        stepok |-> InvSeqStep, contiguous |-> InvContiguous]
InvEmit == (Gen /\ Terminal) => PrintT("BEH " \o ToJson(Beh))
=============================================================================
