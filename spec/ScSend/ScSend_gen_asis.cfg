\* schedules of the model as the code is (both deviations), 2 senders, 1 chunk
CONSTANTS
  Senders = {"p1", "p2"}
  MaxChunks = 1
  Seq0 = 10
  MaxSeq = 100
  RenewMayFail = TRUE
  Gen = TRUE
  Dev_GateGap = TRUE
  Dev_FailedRenewSeq = TRUE
INIT Init
NEXT Next
INVARIANTS InvEmit
CHECK_DEADLOCK FALSE
