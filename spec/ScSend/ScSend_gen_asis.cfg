\* schedules of the model as the code is (gate gap; the failed-renewal deviation was repaired in 61b5747), 2 senders, 1 chunk
CONSTANTS
  Senders = {"p1", "p2"}
  MaxChunks = 2
  Seq0 = 10
  MaxSeq = 100
  RenewMayFail = TRUE
  Gen = TRUE
  MayAbort = TRUE
  MayFailEarly = TRUE
  Dev_SeqConsumedOnEarlyFailure = FALSE
  Dev_ResetSeqOnAbort = FALSE
  Dev_GateGap = TRUE
  Dev_FailedRenewSeq = FALSE
INIT Init
NEXT Next
INVARIANTS InvEmit
CHECK_DEADLOCK FALSE
