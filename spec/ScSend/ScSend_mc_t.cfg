\* contract: 3 senders x <=3 chunks
CONSTANTS
  Senders = {"p1", "p2", "p3"}
  MaxChunks = 3
  Seq0 = 10
  MaxSeq = 14
  RenewMayFail = TRUE
  Gen = FALSE
  MayAbort = TRUE
  MayFailEarly = TRUE
  Dev_SeqConsumedOnEarlyFailure = FALSE
  Dev_ResetSeqOnAbort = FALSE
  Dev_GateGap = FALSE
  Dev_FailedRenewSeq = FALSE
INIT Init
NEXT Next
VIEW view
INVARIANTS InvSeqStep InvContiguous InvNoMisuse InvFreshInst InvLateOnNew
CHECK_DEADLOCK FALSE
