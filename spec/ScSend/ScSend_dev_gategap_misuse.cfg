\* as-is: gate gap -> WaitGroup Add races with Wait
CONSTANTS
  Senders = {"p1", "p2"}
  MaxChunks = 2
  Seq0 = 10
  MaxSeq = 13
  RenewMayFail = FALSE
  Gen = FALSE
  MayAbort = TRUE
  MayFailEarly = TRUE
  Dev_SeqConsumedOnEarlyFailure = FALSE
  Dev_ResetSeqOnAbort = FALSE
  Dev_GateGap = TRUE
  Dev_FailedRenewSeq = FALSE
INIT Init
NEXT Next
VIEW view
INVARIANTS InvNoMisuse
CHECK_DEADLOCK FALSE
