\* demo (repaired in 61b5747): failed renewal leaves the old counter behind
CONSTANTS
  Senders = {"p1", "p2"}
  MaxChunks = 2
  Seq0 = 10
  MaxSeq = 13
  RenewMayFail = TRUE
  Gen = FALSE
  MayAbort = TRUE
  MayFailEarly = TRUE
  Dev_SeqConsumedOnEarlyFailure = FALSE
  Dev_ResetSeqOnAbort = FALSE
  Dev_GateGap = FALSE
  Dev_FailedRenewSeq = TRUE
INIT Init
NEXT Next
VIEW view
INVARIANTS InvSeqStep
CHECK_DEADLOCK FALSE
