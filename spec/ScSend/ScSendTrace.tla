----------------------------- MODULE ScSendTrace -----------------------------
(***************************************************************************)
(* C11, code -> spec: evaluates the invariants of ScSend (InvSeqStep,      *)
(* InvContiguous) on chunk.write traces recorded from the real channel     *)
(* (verif hook "chunk.write": one event per chunk, taken under the         *)
(* instance lock immediately before the write).  Many traces in one file;  *)
(* for every trace one ROW [tr, verdict, at, n] is printed:                *)
(*   ok           every step is +1 (or the allowed wrap), messages whole   *)
(*   step         a chunk's number is not the successor of the previous    *)
(*                chunk's number in its direction                          *)
(*   interleaved  a chunk of another message inside an unfinished message  *)
(*   gap          the number is 2..17 ahead of the previous one: numbers    *)
(*                are missing on the wire                                   *)
(* An event of type "ABORT" (written by the harness when a send call       *)
(* returned the context error after some chunks of its message) closes the *)
(* unfinished message of its direction; it carries no sequence number.     *)
(*   stale        (AsIs only) the first bad step continues the counter of  *)
(*                the instance that a renewal's OPN chunk superseded --    *)
(*                the shape produced by Dev_GateGap / Dev_FailedRenewSeq   *)
(* Sequence numbers are 32 bit; TLC integers are not, so a number is the   *)
(* pair [hi, lo] of its 16 bit halves.                                     *)
(***************************************************************************)
EXTENDS Integers, Sequences, TLC, Json

CONSTANT AsIs

Log == ndJsonDeserialize("trace.ndjson")

VARIABLES l, tr, last, open, stale, verdict, at, cnt
vars == <<l, tr, last, open, stale, verdict, at, cnt>>

Dirs  == {"c", "s"}
None  == [set |-> FALSE, hi |-> 0, lo |-> 0]
NoMsg == [req |-> 0, i |-> 0, n |-> 1]
Num(e)   == [set |-> TRUE, hi |-> e.hi, lo |-> e.lo]
Succ(a)  == IF a.lo = 65535 THEN [set |-> TRUE, hi |-> a.hi + 1, lo |-> 0] ELSE [set |-> TRUE, hi |-> a.hi, lo |-> a.lo + 1]
Pred(a)  == IF a.lo = 0 THEN [set |-> TRUE, hi |-> a.hi - 1, lo |-> 65535] ELSE [set |-> TRUE, hi |-> a.hi, lo |-> a.lo - 1]
\* Part 6, 6.7.2.4 (lenient reading): the wrap is accepted iff the previous number is
\* greater than 2^32-1025 (0xFFFFFBFF) and the next one is less than 1024
WrapOK(a, b) == a.hi = 65535 /\ a.lo > 64511 /\ b.hi = 0 /\ b.lo < 1024
StepOK(a, b) == (~a.set) \/ b = Succ(a) \/ WrapOK(a, b)

Init == /\ l = 1 /\ tr = -1
        /\ last = [d \in Dirs |-> None] /\ open = [d \in Dirs |-> NoMsg]
        /\ stale = [d \in Dirs |-> None]
        /\ verdict = "ok" /\ at = 0 /\ cnt = 0

Fresh(e) == e.tr # tr
L(d, e)  == IF Fresh(e) THEN None ELSE last[d]
O(d, e)  == IF Fresh(e) THEN NoMsg ELSE open[d]
S(d, e)  == IF Fresh(e) THEN None ELSE stale[d]

Abort ==
  /\ l <= Len(Log) /\ Log[l].type = "ABORT"
  /\ LET e == Log[l] IN
       /\ open' = [x \in Dirs |-> IF x = e.dir THEN NoMsg ELSE O(x, e)]
       /\ last' = [x \in Dirs |-> L(x, e)] /\ stale' = [x \in Dirs |-> S(x, e)]
       /\ verdict' = (IF Fresh(e) THEN "ok" ELSE verdict)
       /\ at' = (IF Fresh(e) THEN 0 ELSE at) /\ cnt' = (IF Fresh(e) THEN 1 ELSE cnt + 1)
       /\ tr' = e.tr /\ l' = l + 1

Step ==
  /\ l <= Len(Log) /\ Log[l].type # "ABORT"
  /\ LET e == Log[l]
         d == e.dir
         pl == L(d, e)  po == O(d, e)  ps == S(d, e)
         whole == po.i = po.n - 1
         contig == IF whole THEN e.i = 0 ELSE (e.req = po.req /\ e.i = po.i + 1 /\ e.n = po.n)
         main == StepOK(pl, Num(e))
         viaStale == AsIs /\ ps.set /\ (Num(e) = Succ(ps) \/ WrapOK(ps, Num(e)))
         v0 == IF Fresh(e) THEN "ok" ELSE verdict
         mainOK == contig /\ main
         \* numbers are missing on the wire: the chunk is ahead of the successor of the previous one
         \* (a send that failed before anything was written kept its number: Dev_SeqConsumedOnEarlyFailure)
         ahead == pl.set /\ e.hi = pl.hi /\ e.lo > pl.lo + 1 /\ e.lo <= pl.lo + 17
         \* a chunk that does not continue the stream of the instance in use but the counter of the
         \* superseded instance belongs to that instance's stream (AsIs): it neither advances the
         \* main counter nor the message that is open on the main stream
         v == IF v0 # "ok" THEN v0
              ELSE IF mainOK THEN "ok"
              ELSE IF viaStale THEN "stale"
              ELSE IF ~contig THEN "interleaved"
              ELSE IF ahead THEN "gap" ELSE "step"
     IN /\ verdict' = v
        /\ at' = IF v0 = "ok" /\ v # "ok" THEN (IF Fresh(e) THEN 1 ELSE cnt + 1) ELSE (IF Fresh(e) THEN 0 ELSE at)
        /\ cnt' = IF Fresh(e) THEN 1 ELSE cnt + 1
        /\ tr' = e.tr
        /\ IF (~mainOK) /\ viaStale
           THEN /\ stale' = [x \in Dirs |-> IF x = d THEN Num(e) ELSE S(x, e)]
                /\ last' = [x \in Dirs |-> L(x, e)]
                /\ open' = [x \in Dirs |-> O(x, e)]
           ELSE /\ last' = [x \in Dirs |-> IF x = d THEN Num(e) ELSE L(x, e)]
                /\ open' = [x \in Dirs |-> IF x = d THEN [req |-> e.req, i |-> e.i, n |-> e.n] ELSE O(x, e)]
                \* a renewal's OPN chunk supersedes the instance in use: the old instance's counter stays at
                \* the previous number (when the trace starts with the OPN chunk: the number before it)
                /\ stale' = [x \in Dirs |-> IF x = d /\ e.type = "OPN" THEN (IF pl.set THEN pl ELSE Pred(Num(e))) ELSE S(x, e)]
        /\ l' = l + 1

Next == Step \/ Abort
Spec == Init /\ [][Next]_vars

AtEnd == l > 1 /\ (l = Len(Log) + 1 \/ Log[l].tr # tr)
InvEmit == AtEnd => PrintT("ROW " \o ToJson([tr |-> tr, verdict |-> verdict, at |-> at, n |-> cnt]))
=============================================================================
