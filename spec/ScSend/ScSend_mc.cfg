\* contract: 2 senders x <=2 chunks, one renewal (may fail), counter wrap inside the run
CONSTANTS
  Senders = {"p1", "p2"}
  MaxChunks = 2
  Seq0 = 10
  MaxSeq = 13
  RenewMayFail = TRUE
  Gen = FALSE
  MayAbort = TRUE
  MayFailEarly = TRUE
  Dev_SeqConsumedOnEarlyFailure = FALSE
  Dev_ResetSeqOnAbort = FALSE
  Dev_GateGap = FALSE
  Dev_FailedRenewSeq = FALSE
INIT Init
NEXT Next
VIEW view
INVARIANTS InvSeqStep InvContiguous InvNoMisuse InvFreshInst InvLateOnNew
CHECK_DEADLOCK FALSE
