\* schedules of the as-is model, 2 senders, <=2 chunks
CONSTANTS
  Senders = {"p1", "p2"}
  MaxChunks = 2
  Seq0 = 10
  MaxSeq = 100
  RenewMayFail = TRUE
  Gen = TRUE
  Dev_GateGap = TRUE
  Dev_FailedRenewSeq = TRUE
INIT Init
NEXT Next
INVARIANTS InvEmit
CHECK_DEADLOCK FALSE
