\* schedules of the as-is model (gate gap only), 2 senders, <=2 chunks
CONSTANTS
  Senders = {"p1", "p2"}
  MaxChunks = 3
  Seq0 = 10
  MaxSeq = 100
  RenewMayFail = TRUE
  Gen = TRUE
  MayAbort = TRUE
  MayFailEarly = TRUE
  Dev_SeqConsumedOnEarlyFailure = FALSE
  Dev_ResetSeqOnAbort = FALSE
  Dev_GateGap = TRUE
  Dev_FailedRenewSeq = FALSE
INIT Init
NEXT Next
INVARIANTS InvEmit
CHECK_DEADLOCK FALSE
