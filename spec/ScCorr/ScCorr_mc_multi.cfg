\* contract: 2 callers, answers in two parts (intermediate chunk, final chunk later), timeouts in between: all interleavings
CONSTANTS
  Callers = {1, 2}
  MaxCalls = 1
  IdSeed = 3
  IdMax = 4
  UnsolIds = {0}
  MaxExtra = 0
  Kinds = {"ok"}
  WithRenew = FALSE
  Timed = FALSE
  T = 2
  MaxTime = 0
  EarlyCancel = FALSE
  MultiChunk = TRUE
  NoTimeouts = FALSE
  Mode = "mc"
  SymBreak = FALSE
  Dev_OpnTimeoutWedge = FALSE
  Dev_LeakOnEarlyCancel = FALSE
  Dev_GateIgnoresDeadline = FALSE
  Dev_KeyMask = FALSE
  Dev_NoTypeCheck = FALSE
  Dev_NoPopOnTimeout = FALSE
  Dev_DropChunksOnTimeout = FALSE
INIT Init
NEXT Next
VIEW view
INVARIANTS TypeOK InvOwnResponse InvNoShare InvTypeError InvFaultError InvBoxOwn InvSlotFreed InvBoundedWait InvGateOwned InvNoChanErr
CHECK_DEADLOCK FALSE
