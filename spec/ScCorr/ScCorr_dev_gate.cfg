\* demo (repaired by the request-gate fix): a call waiting at the renewal gate ignores its deadline -> InvBoundedWait
CONSTANTS
  Callers = {1}
  MaxCalls = 1
  IdSeed = 3
  IdMax = 4
  UnsolIds = {0, 3}
  MaxExtra = 1
  Kinds = {"ok"}
  WithRenew = TRUE
  Timed = TRUE
  T = 1
  MaxTime = 3
  EarlyCancel = FALSE
  MultiChunk = FALSE
  NoTimeouts = FALSE
  Mode = "mc"
  SymBreak = FALSE
  Dev_OpnTimeoutWedge = FALSE
  Dev_LeakOnEarlyCancel = FALSE
  Dev_GateIgnoresDeadline = TRUE
  Dev_KeyMask = FALSE
  Dev_NoTypeCheck = FALSE
  Dev_NoPopOnTimeout = FALSE
  Dev_DropChunksOnTimeout = FALSE
INIT Init
NEXT Next
VIEW view
INVARIANTS InvBoundedWait
CHECK_DEADLOCK FALSE
