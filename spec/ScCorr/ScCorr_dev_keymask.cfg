\* demo: handler table keyed by id % 2 -> InvOwnResponse / InvSlotFreed
CONSTANTS
  Callers = {1, 2}
  MaxCalls = 1
  IdSeed = 0
  IdMax = 5
  UnsolIds = {0, 3}
  MaxExtra = 1
  Kinds = {"ok"}
  WithRenew = FALSE
  Timed = FALSE
  T = 2
  MaxTime = 0
  EarlyCancel = FALSE
  MultiChunk = FALSE
  NoTimeouts = FALSE
  Mode = "mc"
  SymBreak = FALSE
  Dev_OpnTimeoutWedge = FALSE
  Dev_LeakOnEarlyCancel = FALSE
  Dev_GateIgnoresDeadline = FALSE
  Dev_KeyMask = TRUE
  Dev_NoTypeCheck = FALSE
  Dev_NoPopOnTimeout = FALSE
  Dev_DropChunksOnTimeout = FALSE
INIT Init
NEXT Next
VIEW view
INVARIANTS InvOwnResponse InvNoShare
CHECK_DEADLOCK FALSE
