\* quick: 1 caller + token renewal, discrete clock (InvBoundedWait, InvGateOwned)
CONSTANTS
  Callers = {1}
  MaxCalls = 1
  IdSeed = 3
  IdMax = 4
  UnsolIds = {0}
  MaxExtra = 1
  Kinds = {"ok"}
  WithRenew = TRUE
  Timed = TRUE
  T = 1
  MaxTime = 2
  EarlyCancel = TRUE
  MultiChunk = FALSE
  NoTimeouts = FALSE
  Mode = "mc"
  SymBreak = FALSE
  Dev_OpnTimeoutWedge = FALSE
  Dev_LeakOnEarlyCancel = FALSE
  Dev_GateIgnoresDeadline = FALSE
  Dev_KeyMask = FALSE
  Dev_NoTypeCheck = FALSE
  Dev_NoPopOnTimeout = FALSE
  Dev_DropChunksOnTimeout = FALSE
INIT Init
NEXT Next
VIEW view
INVARIANTS TypeOK InvOwnResponse InvNoShare InvTypeError InvFaultError InvBoxOwn InvSlotFreed InvBoundedWait InvGateOwned InvNoChanErr
CHECK_DEADLOCK FALSE
