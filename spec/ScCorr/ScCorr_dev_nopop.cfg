\* demo: timeout arm keeps the handler -> InvSlotFreed
CONSTANTS
  Callers = {1}
  MaxCalls = 1
  IdSeed = 3
  IdMax = 4
  UnsolIds = {0, 3}
  MaxExtra = 1
  Kinds = {"ok", "wrong", "fault"}
  WithRenew = FALSE
  Timed = FALSE
  T = 2
  MaxTime = 0
  EarlyCancel = FALSE
  MultiChunk = FALSE
  NoTimeouts = FALSE
  Mode = "mc"
  SymBreak = FALSE
  Dev_OpnTimeoutWedge = FALSE
  Dev_LeakOnEarlyCancel = FALSE
  Dev_GateIgnoresDeadline = FALSE
  Dev_KeyMask = FALSE
  Dev_NoTypeCheck = FALSE
  Dev_NoPopOnTimeout = TRUE
  Dev_DropChunksOnTimeout = FALSE
INIT Init
NEXT Next
VIEW view
INVARIANTS InvSlotFreed
CHECK_DEADLOCK FALSE
