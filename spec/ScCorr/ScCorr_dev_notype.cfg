\* demo: wrong response type accepted -> InvTypeError
CONSTANTS
  Callers = {1}
  MaxCalls = 1
  IdSeed = 3
  IdMax = 4
  UnsolIds = {0, 3}
  MaxExtra = 1
  Kinds = {"ok", "wrong", "fault", "echo"}
  WithRenew = FALSE
  Timed = FALSE
  T = 2
  MaxTime = 0
  EarlyCancel = FALSE
  MultiChunk = FALSE
  NoTimeouts = FALSE
  Mode = "mc"
  SymBreak = FALSE
  Dev_OpnTimeoutWedge = FALSE
  Dev_LeakOnEarlyCancel = FALSE
  Dev_GateIgnoresDeadline = FALSE
  Dev_KeyMask = FALSE
  Dev_NoTypeCheck = TRUE
  Dev_NoPopOnTimeout = FALSE
  Dev_DropChunksOnTimeout = FALSE
INIT Init
NEXT Next
VIEW view
INVARIANTS InvTypeError
CHECK_DEADLOCK FALSE
