\* demo: the error arms discard the buffered chunks of their request id -> the late final chunk becomes a channel error (InvNoChanErr)
CONSTANTS
  Callers = {1}
  MaxCalls = 1
  IdSeed = 3
  IdMax = 4
  UnsolIds = {0}
  MaxExtra = 0
  Kinds = {"ok"}
  WithRenew = FALSE
  Timed = FALSE
  T = 2
  MaxTime = 0
  EarlyCancel = FALSE
  MultiChunk = TRUE
  NoTimeouts = FALSE
  Mode = "mc"
  SymBreak = FALSE
  Dev_OpnTimeoutWedge = FALSE
  Dev_LeakOnEarlyCancel = FALSE
  Dev_GateIgnoresDeadline = FALSE
  Dev_KeyMask = FALSE
  Dev_NoTypeCheck = FALSE
  Dev_NoPopOnTimeout = FALSE
  Dev_DropChunksOnTimeout = TRUE
INIT Init
NEXT Next
VIEW view
INVARIANTS InvNoChanErr
CHECK_DEADLOCK FALSE
