\* scripts: 2 callers, all answer kinds, duplicate/unsolicited, id wrap
CONSTANTS
  Callers = {1, 2}
  MaxCalls = 1
  IdSeed = 3
  IdMax = 4
  UnsolIds = {0, 3}
  MaxExtra = 1
  Kinds = {"ok", "wrong", "fault", "echo"}
  WithRenew = FALSE
  Timed = FALSE
  T = 2
  MaxTime = 0
  EarlyCancel = FALSE
  MultiChunk = FALSE
  NoTimeouts = FALSE
  Mode = "script"
  SymBreak = TRUE
  Dev_OpnTimeoutWedge = FALSE
  Dev_LeakOnEarlyCancel = FALSE
  Dev_GateIgnoresDeadline = FALSE
  Dev_KeyMask = FALSE
  Dev_NoTypeCheck = FALSE
  Dev_NoPopOnTimeout = FALSE
  Dev_DropChunksOnTimeout = FALSE
INIT Init
NEXT Next
INVARIANTS InvOwnResponse InvNoShare InvTypeError InvFaultError InvSlotFreed InvGateOwned InvNoChanErr InvEmit
CHECK_DEADLOCK FALSE
