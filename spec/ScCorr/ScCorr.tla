------------------------------- MODULE ScCorr -------------------------------
(***************************************************************************)
(* C18 / C19 -- request/response correlation of the client secure channel  *)
(* (uasc/secure_channel.go).  One action per critical section of the code: *)
(*                                                                         *)
(*   caller   SendRequestWithTimeout: reqLocker gate -> nextRequestID ->   *)
(*            sendAsyncWithTimeout (handler registration + write) ->       *)
(*            select { msg | timer | ctx } -> popHandler on the error arms *)
(*   opener   renew/open: an OPN request that uses the same path, takes    *)
(*            the request gate before and releases request gate and        *)
(*            receive gate (deferred rcvLocker.unlock) when it returns     *)
(*   dispatcher  Receive -> popHandler -> [OPN: rcvLocker.lock] ->         *)
(*            ch <- msg -> rcvLocker.waitIfLock                            *)
(*   server   environment: answers requests in any order, with the right   *)
(*            or a wrong response type or a service fault, not at all,     *)
(*            twice, or with request ids nobody asked for                  *)
(*                                                                         *)
(* Mode "mc"     every interleaving (exhaustive check of the invariants)   *)
(*      "script" environment steps only in quiescent states; hist holds    *)
(*               the environment steps = a script for the scripted server  *)
(*      "race"   like script, but the dispatcher hand-over steps and the   *)
(*               error arms of the callers are scheduled explicitly        *)
(*               (they correspond to the gates disp.pop / disp.handoff /   *)
(*               disp.gate / wait.timeout / wait.ctx in the real code)     *)
(***************************************************************************)
EXTENDS Naturals, Sequences, FiniteSets, TLC, Json

CONSTANTS
  Callers,        \* caller goroutines (positive naturals)
  MaxCalls,       \* calls per caller
  IdSeed, IdMax,  \* request id counter: first id is Bump(IdSeed); IdMax wraps to 1 (0 is never used)
  UnsolIds,       \* request ids used by the server for unsolicited responses
  MaxExtra,       \* number of duplicated / unsolicited responses
  Kinds,          \* kinds of answers to ordinary requests: subset of {"ok","wrong","fault","echo"}
                  \* ("echo": a well-formed message that is not a response -- the request sent back under its id)
  WithRenew,      \* one token renewal (OPN request) takes part
  Timed,          \* TRUE: discrete clock, timers fire at their deadline (InvBoundedWait)
  T, MaxTime,     \* timeout + leniency in ticks, clock bound
  EarlyCancel,    \* the context of a call may end before the request is written
  MultiChunk,     \* a response may arrive in two parts: intermediate chunk(s) first, the final chunk later
  NoTimeouts,     \* TRUE: no timer / context events (configurations in which request ids are reused while
                  \* the first user may still be pending: a call then ends only through its response, so an
                  \* id is free again only after its response was consumed)
  Mode,           \* "mc" | "script" | "race"
  SymBreak,       \* generation: callers are interchangeable, so caller n+1 starts only after caller n did
  \* repaired (fixes/C19-gate-wait-honours-timeout-and-context): FALSE in every conformance configuration
  Dev_GateIgnoresDeadline, \* a call waiting at the renewal gate honours neither timeout nor context
  \* repaired in /repo (a6d06b1, 49b62b1): FALSE in every conformance configuration, kept as demos
  Dev_OpnTimeoutWedge,     \* dispatcher locks the receive gate in a separate step after popHandler
  Dev_LeakOnEarlyCancel,   \* handler registered although the context already ended, not removed
  Dev_KeyMask,             \* (demo) handler table keyed by id % 2
  Dev_NoTypeCheck,         \* (demo) wrong response type accepted
  Dev_NoPopOnTimeout,      \* (demo) the timeout arm leaves the handler registered
  Dev_DropChunksOnTimeout  \* (demo) the error arms also discard the buffered chunks of their request id

Op      == 0                                   \* the opener (renewal)
Nobody  == 99
Procs   == Callers \cup (IF WithRenew THEN {Op} ELSE {})
NoMsg   == [mid |-> 0, id |-> 0, c |-> Nobody, k |-> 0, kind |-> "none", multi |-> FALSE]
Bump(i) == IF i >= IdMax THEN 1 ELSE i + 1
Key(i)  == IF Dev_KeyMask THEN i % 2 ELSE i
CallsOf(p) == IF p = Op THEN 1 ELSE MaxCalls

VARIABLES
  nextId,     \* SecureChannel.requestID
  handlers,   \* set of [key, c, k]: handler table, slot of call k of caller c
  pc, cid, ncalls, box, t0, dl, ctxd,
  sent,       \* requests written to the wire: [id, c, k]
  c2s,        \* the same in the order of writing (the wire is FIFO)
  srvRead,    \* number of requests the server has read; it reads in order, answers in any order
  answered,   \* requests the server answered
  s2c,        \* responses on the wire (FIFO), dRead = number consumed by the dispatcher
  dRead, dpc, dmsg, dch,
  rcvGate, reqGate,
  extra, now,
  chunks,     \* request ids with buffered intermediate chunks of a response (SecureChannel.chunks)
  chanErr,    \* an error was reported on the channel's error channel because a message could not be decoded
  results,    \* finished calls: [c, k, id, out, mid, kind, own, t0, t1]
  hist        \* generation modes: the recorded steps

vars == <<nextId, handlers, pc, cid, ncalls, box, t0, dl, ctxd, sent, c2s, srvRead, answered, s2c,
          dRead, dpc, dmsg, dch, rcvGate, reqGate, extra, now, chunks, chanErr, results, hist>>
view == <<nextId, handlers, pc, cid, ncalls, box, t0, dl, ctxd, sent, c2s, srvRead, answered, s2c,
          dRead, dpc, dmsg, dch, rcvGate, reqGate, extra, now, chunks, chanErr, results>>

Init ==
  /\ nextId = IdSeed /\ handlers = {}
  /\ pc = [p \in Procs |-> "idle"] /\ cid = [p \in Procs |-> 0]
  /\ ncalls = [p \in Procs |-> 0] /\ box = [p \in Procs |-> NoMsg]
  /\ t0 = [p \in Procs |-> 0] /\ dl = [p \in Procs |-> 0] /\ ctxd = [p \in Procs |-> FALSE]
  /\ sent = {} /\ c2s = <<>> /\ srvRead = 0 /\ answered = {} /\ s2c = <<>> /\ dRead = 0
  /\ dpc = "recv" /\ dmsg = NoMsg /\ dch = [c |-> Nobody, k |-> 0]
  /\ rcvGate = FALSE /\ reqGate = FALSE /\ extra = 0 /\ now = 0 /\ chunks = {} /\ chanErr = FALSE
  /\ results = {} /\ hist = <<>>

---------------------------------------------------------------------------
\* which steps are "internal and eager" in the generation modes
CallerEager(p) == \/ pc[p] \in {"id", "reg"}
                  \/ (pc[p] = "gate" /\ ~reqGate)
                  \/ (pc[p] = "gate" /\ reqGate /\ ctxd[p] /\ ~Dev_GateIgnoresDeadline)
                  \/ (pc[p] = "wait" /\ box[p] # NoMsg)
DispEager      == \/ (dpc = "recv" /\ dRead < Len(s2c))
                  \/ dpc = "pop"
                  \/ (dpc = "gatew" /\ ~rcvGate)
SrvEager       == srvRead < Len(c2s) /\ c2s[srvRead + 1].c # Op
EagerIdle      == ~DispEager /\ ~SrvEager /\ \A p \in Procs : ~CallerEager(p)
Quiescent      == /\ EagerIdle
                  /\ dpc \in {"recv", "gatew"}
                  /\ \A p \in Procs : pc[p] \notin {"tmo", "ctxp"}
\* guard of environment steps
EnvOK   == CASE Mode = "mc" -> TRUE [] Mode = "script" -> Quiescent [] OTHER -> EagerIdle
\* guard of explicitly scheduled internal steps (race mode) / eager otherwise
SchedOK == CASE Mode = "race" -> EagerIdle [] OTHER -> TRUE
\* every recorded step carries a snapshot of what must have happened before it (taken in an
\* eager-idle state): requests on the wire, finished calls, responses consumed by the dispatcher
PartsIn(n)  == Cardinality({i \in 1..n : s2c[i].kind = "part"})
Snap        == [nsent |-> Cardinality(sent), nres |-> Cardinality(results),
                nread |-> dRead - PartsIn(dRead), nparts |-> PartsIn(dRead)]
Rec(r)      == hist' = IF Mode = "mc" THEN hist ELSE Append(hist, r @@ Snap)
RecRace(r)  == hist' = IF Mode = "race" THEN Append(hist, r @@ Snap) ELSE hist

FirstOK(p) == (SymBreak /\ p \in Callers) => \A q \in Callers : q < p => (ncalls[q] > 0 \/ pc[q] # "idle")

Finish(p, out, m) ==
  /\ results' = results \cup {[c |-> p, k |-> ncalls[p] + 1, id |-> cid[p], out |-> out,
                               mid |-> m.mid, kind |-> m.kind,
                               own |-> (m.c = p /\ m.k = ncalls[p] + 1),
                               t0 |-> t0[p], t1 |-> now]}
  /\ ncalls' = [ncalls EXCEPT ![p] = @ + 1]
  /\ pc' = [pc EXCEPT ![p] = "idle"]
  /\ box' = [box EXCEPT ![p] = NoMsg]
  /\ ctxd' = [ctxd EXCEPT ![p] = FALSE]
  \* open(): deferred rcvLocker.unlock(); renew(): deferred reqLocker.unlock()
  /\ IF p = Op THEN rcvGate' = FALSE /\ reqGate' = FALSE ELSE UNCHANGED <<rcvGate, reqGate>>

---------------------------------------------------------------------------
\* callers and opener

Invoke(p) ==                       \* SendRequestWithTimeout is called / renew() starts
  /\ UNCHANGED <<chunks, chanErr>>
  /\ pc[p] = "idle" /\ ncalls[p] < CallsOf(p) /\ EnvOK /\ FirstOK(p)
  /\ t0' = [t0 EXCEPT ![p] = now]
  /\ IF p = Op THEN /\ ~reqGate /\ reqGate' = TRUE         \* renew: reqLocker.lock()
                    /\ pc' = [pc EXCEPT ![p] = "id"]
               ELSE /\ pc' = [pc EXCEPT ![p] = "gate"] /\ UNCHANGED reqGate
  /\ Rec([a |-> "call", c |-> p, k |-> ncalls[p] + 1])
  /\ UNCHANGED <<nextId, handlers, cid, ncalls, box, dl, ctxd, sent, c2s, srvRead, answered, s2c, dRead,
                 dpc, dmsg, dch, rcvGate, extra, now, results>>

PassGate(p) ==                     \* reqLocker.waitIfLock()
  /\ UNCHANGED <<chunks, chanErr>>
  /\ pc[p] = "gate" /\ ~reqGate
  /\ pc' = [pc EXCEPT ![p] = "id"]
  /\ UNCHANGED <<nextId, handlers, cid, ncalls, box, t0, dl, ctxd, sent, c2s, srvRead, answered, s2c, dRead,
                 dpc, dmsg, dch, rcvGate, reqGate, extra, now, results, hist>>

GateDeadline(p) ==                 \* contract: the wait at the gate is bounded by the call's own deadline
  /\ UNCHANGED <<chunks, chanErr>>
  /\ ~Dev_GateIgnoresDeadline /\ Timed
  /\ pc[p] = "gate" /\ reqGate /\ now >= t0[p] + T
  /\ Finish(p, "timeout", NoMsg)
  /\ UNCHANGED <<nextId, handlers, cid, t0, dl, sent, c2s, srvRead, answered, s2c, dRead,
                 dpc, dmsg, dch, extra, now, hist>>

GateTimeout(p) ==                  \* untimed modes: the call's timeout elapses while it waits at the gate
  /\ UNCHANGED <<chunks, chanErr>>
  /\ ~Dev_GateIgnoresDeadline /\ ~Timed /\ ~NoTimeouts /\ p \in Callers
  /\ pc[p] = "gate" /\ reqGate /\ ~ctxd[p] /\ EnvOK
  /\ Finish(p, "timeout", NoMsg)
  /\ Rec([a |-> "gatetimeout", c |-> p])
  /\ UNCHANGED <<nextId, handlers, cid, t0, dl, sent, c2s, srvRead, answered, s2c, dRead,
                 dpc, dmsg, dch, extra, now>>

GateCancel(p) ==                   \* the caller's context has ended: the wait at the gate is given up
  /\ UNCHANGED <<chunks, chanErr>>
  /\ ~Dev_GateIgnoresDeadline
  /\ pc[p] = "gate" /\ reqGate /\ ctxd[p]
  /\ Finish(p, "ctx", NoMsg)
  /\ UNCHANGED <<nextId, handlers, cid, t0, dl, sent, c2s, srvRead, answered, s2c, dRead,
                 dpc, dmsg, dch, extra, now, hist>>

AllocId(p) ==                      \* nextRequestID()
  /\ UNCHANGED <<chunks, chanErr>>
  /\ pc[p] = "id"
  /\ nextId' = Bump(nextId) /\ cid' = [cid EXCEPT ![p] = Bump(nextId)]
  /\ pc' = [pc EXCEPT ![p] = "reg"]
  /\ UNCHANGED <<handlers, ncalls, box, t0, dl, ctxd, sent, c2s, srvRead, answered, s2c, dRead,
                 dpc, dmsg, dch, rcvGate, reqGate, extra, now, results, hist>>

Register(p) ==                     \* sendAsyncWithTimeout under the instance lock
  /\ UNCHANGED <<chunks, chanErr>>
  /\ pc[p] = "reg"
  /\ LET slot == [key |-> Key(cid[p]), c |-> p, k |-> ncalls[p] + 1] IN
     IF \E h \in handlers : h.key = Key(cid[p])
     THEN \* "duplicate handler registration"
          /\ Finish(p, "dup", NoMsg)
          /\ UNCHANGED <<handlers, sent, c2s, dl>>
     ELSE IF ctxd[p]
     THEN \* the context ended before the first chunk was written
          /\ Finish(p, "ctx", NoMsg)
          /\ handlers' = IF Dev_LeakOnEarlyCancel THEN handlers \cup {slot} ELSE handlers
          /\ UNCHANGED <<sent, c2s, dl>>
     ELSE /\ handlers' = handlers \cup {slot}
          /\ sent' = sent \cup {[id |-> cid[p], c |-> p, k |-> ncalls[p] + 1]}
          /\ c2s' = Append(c2s, [id |-> cid[p], c |-> p, k |-> ncalls[p] + 1])
          /\ dl' = [dl EXCEPT ![p] = IF Dev_GateIgnoresDeadline THEN now + T ELSE t0[p] + T]
          /\ pc' = [pc EXCEPT ![p] = "wait"]
          /\ UNCHANGED <<ncalls, box, ctxd, results, rcvGate, reqGate>>
  /\ UNCHANGED <<nextId, cid, t0, srvRead, answered, s2c, dRead, dpc, dmsg, dch, extra, now, hist>>

Outcome(m) == CASE m.kind = "ok"    -> "ok"
                [] m.kind = "opn"   -> "ok"
                [] m.kind = "fault" -> "fault"
                [] m.kind = "wrong" -> IF Dev_NoTypeCheck THEN "ok" ELSE "type"
                [] m.kind = "echo"  -> IF Dev_NoTypeCheck THEN "ok" ELSE "type"

TakeMsg(p) ==                      \* case msg := <-ch
  /\ UNCHANGED <<chunks, chanErr>>
  /\ pc[p] = "wait" /\ box[p] # NoMsg
  /\ Finish(p, Outcome(box[p]), box[p])
  /\ UNCHANGED <<nextId, handlers, cid, t0, dl, sent, c2s, srvRead, answered, s2c, dRead,
                 dpc, dmsg, dch, extra, now, hist>>

TimerArm(p) ==                     \* case <-timer.C (hook wait.timeout)
  /\ UNCHANGED <<chunks, chanErr>>
  /\ ~NoTimeouts
  /\ pc[p] = "wait"
  /\ IF Timed THEN now >= dl[p] ELSE EnvOK
  /\ (Mode # "mc" => box[p] = NoMsg)
  /\ pc' = [pc EXCEPT ![p] = "tmo"]
  /\ Rec([a |-> "timeout", c |-> p])
  /\ UNCHANGED <<nextId, handlers, cid, ncalls, box, t0, dl, ctxd, sent, c2s, srvRead, answered, s2c, dRead,
                 dpc, dmsg, dch, rcvGate, reqGate, extra, now, results>>

Cancel(p) ==                       \* the caller's context ends
  /\ UNCHANGED <<chunks, chanErr>>
  /\ p \in Callers /\ ~ctxd[p] /\ EnvOK /\ ~NoTimeouts
  /\ \/ /\ pc[p] = "wait" /\ (Mode # "mc" => box[p] = NoMsg)        \* case <-ctx.Done() (hook wait.ctx)
        /\ pc' = [pc EXCEPT ![p] = "ctxp"] /\ UNCHANGED ctxd
     \/ /\ EarlyCancel                                     \* before the request is written
        /\ IF Mode = "mc" THEN pc[p] \in {"gate", "id", "reg"} ELSE (pc[p] = "gate" /\ reqGate)
        /\ ctxd' = [ctxd EXCEPT ![p] = TRUE] /\ UNCHANGED pc
  /\ Rec([a |-> "cancel", c |-> p])
  /\ UNCHANGED <<nextId, handlers, cid, ncalls, box, t0, dl, sent, c2s, srvRead, answered, s2c, dRead,
                 dpc, dmsg, dch, rcvGate, reqGate, extra, now, results>>

InvokeCancelled(p) ==              \* a call made with a context that has already ended
  /\ UNCHANGED <<chunks, chanErr>>
  /\ EarlyCancel /\ p \in Callers
  /\ pc[p] = "idle" /\ ncalls[p] < CallsOf(p) /\ EnvOK /\ FirstOK(p)
  /\ t0' = [t0 EXCEPT ![p] = now]
  /\ pc' = [pc EXCEPT ![p] = "gate"] /\ ctxd' = [ctxd EXCEPT ![p] = TRUE]
  /\ Rec([a |-> "callcancelled", c |-> p, k |-> ncalls[p] + 1])
  /\ UNCHANGED <<nextId, handlers, cid, ncalls, box, dl, sent, c2s, srvRead, answered, s2c, dRead,
                 dpc, dmsg, dch, rcvGate, reqGate, extra, now, results>>

ErrPop(p) ==                       \* popHandler(reqID) on the timer / ctx arm, then return
  /\ pc[p] \in {"tmo", "ctxp"} /\ SchedOK
  /\ handlers' = IF Dev_NoPopOnTimeout THEN handlers
                 ELSE {h \in handlers : h.key # Key(cid[p])}
  /\ Finish(p, IF pc[p] = "tmo" THEN "timeout" ELSE "ctx", NoMsg)
  /\ chunks' = IF Dev_DropChunksOnTimeout THEN chunks \ {cid[p]} ELSE chunks
  /\ UNCHANGED chanErr
  /\ RecRace([a |-> "errpop", c |-> p])
  /\ UNCHANGED <<nextId, cid, t0, dl, sent, c2s, srvRead, answered, s2c, dRead, dpc, dmsg, dch, extra, now>>

---------------------------------------------------------------------------
\* dispatcher

DRecvPart ==                       \* Receive() read an intermediate chunk: buffered under its request id
  /\ dpc = "recv" /\ dRead < Len(s2c) /\ s2c[dRead + 1].kind = "part"
  /\ chunks' = chunks \cup {s2c[dRead + 1].id} /\ dRead' = dRead + 1
  /\ UNCHANGED <<nextId, handlers, pc, cid, ncalls, box, t0, dl, ctxd, sent, c2s, srvRead, answered, s2c,
                 dpc, dmsg, dch, rcvGate, reqGate, extra, now, chanErr, results, hist>>

DRecv ==                           \* Receive() returned the next message
  /\ dpc = "recv" /\ dRead < Len(s2c) /\ s2c[dRead + 1].kind # "part"
  /\ LET m == s2c[dRead + 1] IN
       IF m.multi /\ m.id \notin chunks
       THEN \* the final chunk of a message whose first part is gone: decoding fails, the error goes
            \* to the error channel (the client treats that as a broken connection)
            /\ chanErr' = TRUE /\ UNCHANGED <<dmsg, dpc, chunks>>
       ELSE /\ dmsg' = m /\ dpc' = "pop" /\ chunks' = chunks \ {m.id} /\ UNCHANGED chanErr
  /\ dRead' = dRead + 1
  /\ UNCHANGED <<nextId, handlers, pc, cid, ncalls, box, t0, dl, ctxd, sent, c2s, srvRead, answered, s2c,
                 dch, rcvGate, reqGate, extra, now, results, hist>>

DPop ==                            \* popHandler(msg.RequestID)   (hook disp.pop follows)
  /\ UNCHANGED <<chunks, chanErr>>
  /\ dpc = "pop"
  /\ IF \E h \in handlers : h.key = Key(dmsg.id)
     THEN LET h == CHOOSE h \in handlers : h.key = Key(dmsg.id) IN
          /\ handlers' = handlers \ {h}
          /\ dch' = [c |-> h.c, k |-> h.k]
          /\ IF dmsg.kind = "opn" /\ ~Dev_OpnTimeoutWedge
             THEN rcvGate' = TRUE /\ dpc' = "handoff"    \* contract: gate taken atomically with the pop
             ELSE UNCHANGED rcvGate /\ dpc' = (IF dmsg.kind = "opn" THEN "lock" ELSE "handoff")
     ELSE /\ dpc' = "recv" /\ UNCHANGED <<handlers, dch, rcvGate>>   \* no handler: message dropped
  /\ UNCHANGED <<nextId, pc, cid, ncalls, box, t0, dl, ctxd, sent, c2s, srvRead, answered, s2c, dRead,
                 dmsg, reqGate, extra, now, results, hist>>

DLock ==                           \* HACK: rcvLocker.lock() for an OpenSecureChannelResponse
  /\ UNCHANGED <<chunks, chanErr>>
  /\ dpc = "lock" /\ SchedOK
  /\ rcvGate' = TRUE /\ dpc' = "handoff"
  /\ RecRace([a |-> "dlock"])
  /\ UNCHANGED <<nextId, handlers, pc, cid, ncalls, box, t0, dl, ctxd, sent, c2s, srvRead, answered, s2c, dRead,
                 dmsg, dch, reqGate, extra, now, results>>

DHandoff ==                        \* select { case ch <- msg: default: }
  /\ UNCHANGED <<chunks, chanErr>>
  /\ dpc = "handoff" /\ SchedOK
  /\ IF /\ dch.c \in Procs /\ ncalls[dch.c] + 1 = dch.k
        /\ pc[dch.c] \in {"wait", "tmo", "ctxp"} /\ box[dch.c] = NoMsg
     THEN box' = [box EXCEPT ![dch.c] = dmsg]
     ELSE UNCHANGED box            \* the channel of a call that already returned: nobody reads it
  /\ dpc' = "gate"
  /\ RecRace([a |-> "dhandoff"])
  /\ UNCHANGED <<nextId, handlers, pc, cid, ncalls, t0, dl, ctxd, sent, c2s, srvRead, answered, s2c, dRead,
                 dmsg, dch, rcvGate, reqGate, extra, now, results>>

DGateEnter ==                      \* hook disp.gate, then rcvLocker.waitIfLock()
  /\ UNCHANGED <<chunks, chanErr>>
  /\ dpc = "gate" /\ SchedOK
  /\ dpc' = "gatew"
  /\ RecRace([a |-> "dgate"])
  /\ UNCHANGED <<nextId, handlers, pc, cid, ncalls, box, t0, dl, ctxd, sent, c2s, srvRead, answered, s2c, dRead,
                 dmsg, dch, rcvGate, reqGate, extra, now, results>>

DGatePass ==
  /\ UNCHANGED <<chunks, chanErr>>
  /\ dpc = "gatew" /\ ~rcvGate
  /\ dpc' = "recv"
  /\ UNCHANGED <<nextId, handlers, pc, cid, ncalls, box, t0, dl, ctxd, sent, c2s, srvRead, answered, s2c, dRead,
                 dmsg, dch, rcvGate, reqGate, extra, now, results, hist>>

---------------------------------------------------------------------------
\* server (environment)

Parted(r)      == \E i \in 1..Len(s2c) : s2c[i].kind = "part" /\ s2c[i].id = r.id /\ s2c[i].c = r.c /\ s2c[i].k = r.k
mkMsg(r, kind) == [mid |-> Len(s2c) + 1, id |-> r.id, c |-> r.c, k |-> r.k, kind |-> kind, multi |-> Parted(r)]

Inbox == {c2s[i] : i \in 1..srvRead}

SrvRead ==                         \* the server reads the next ordinary request
  /\ UNCHANGED <<chunks, chanErr>>
  /\ srvRead < Len(c2s) /\ c2s[srvRead + 1].c # Op
  /\ srvRead' = srvRead + 1
  /\ UNCHANGED <<nextId, handlers, pc, cid, ncalls, box, t0, dl, ctxd, sent, c2s, answered, s2c, dRead,
                 dpc, dmsg, dch, rcvGate, reqGate, extra, now, results, hist>>

Respond(r, kind) ==                \* answer a request that was read, in any order
  /\ UNCHANGED <<chunks, chanErr>>
  /\ r \in Inbox \ answered /\ r.c # Op /\ EnvOK
  /\ kind \in Kinds
  /\ s2c' = Append(s2c, mkMsg(r, kind))
  /\ answered' = answered \cup {r}
  /\ Rec([a |-> "resp", c |-> r.c, k |-> r.k, kind |-> kind, mid |-> Len(s2c) + 1])
  /\ UNCHANGED <<nextId, handlers, pc, cid, ncalls, box, t0, dl, ctxd, sent, c2s, srvRead, dRead,
                 dpc, dmsg, dch, rcvGate, reqGate, extra, now, results>>

RespondPart(r) ==                  \* the intermediate chunk(s) of the answer go out, the final chunk follows later
  /\ MultiChunk /\ r \in Inbox \ answered /\ r.c # Op /\ ~Parted(r) /\ EnvOK
  /\ s2c' = Append(s2c, [mid |-> Len(s2c) + 1, id |-> r.id, c |-> r.c, k |-> r.k, kind |-> "part", multi |-> TRUE])
  /\ Rec([a |-> "resppart", c |-> r.c, k |-> r.k, mid |-> Len(s2c) + 1])
  /\ UNCHANGED <<nextId, handlers, pc, cid, ncalls, box, t0, dl, ctxd, sent, c2s, srvRead, answered, dRead,
                 dpc, dmsg, dch, rcvGate, reqGate, extra, now, chunks, chanErr, results>>

RespondOpn ==                      \* the server reads the renewal request: it is answered at once
  /\ UNCHANGED <<chunks, chanErr>>
  /\ srvRead < Len(c2s) /\ c2s[srvRead + 1].c = Op /\ EnvOK
  /\ LET r == c2s[srvRead + 1] IN
       /\ s2c' = Append(s2c, mkMsg(r, "opn"))
       /\ answered' = answered \cup {r}
       /\ Rec([a |-> "resp", c |-> r.c, k |-> r.k, kind |-> "opn", mid |-> Len(s2c) + 1])
  /\ srvRead' = srvRead + 1
  /\ UNCHANGED <<nextId, handlers, pc, cid, ncalls, box, t0, dl, ctxd, sent, c2s, dRead,
                 dpc, dmsg, dch, rcvGate, reqGate, extra, now, results>>

Dup(r) ==                          \* a second response to a request that was already answered
  /\ UNCHANGED <<chunks, chanErr>>
  /\ r \in answered /\ extra < MaxExtra /\ EnvOK
  /\ s2c' = Append(s2c, [mkMsg(r, IF r.c = Op THEN "opn" ELSE "ok") EXCEPT !.multi = FALSE])
  /\ extra' = extra + 1
  /\ Rec([a |-> "dup", c |-> r.c, k |-> r.k, mid |-> Len(s2c) + 1])
  /\ UNCHANGED <<nextId, handlers, pc, cid, ncalls, box, t0, dl, ctxd, sent, c2s, srvRead, answered, dRead,
                 dpc, dmsg, dch, rcvGate, reqGate, now, results>>

Unsol(i) ==                        \* a response with a request id nobody uses
  /\ UNCHANGED <<chunks, chanErr>>
  /\ i \in UnsolIds /\ extra < MaxExtra /\ EnvOK
  /\ s2c' = Append(s2c, [mid |-> Len(s2c) + 1, id |-> i, c |-> Nobody, k |-> 0, kind |-> "ok", multi |-> FALSE])
  /\ extra' = extra + 1
  /\ Rec([a |-> "unsol", id |-> i, mid |-> Len(s2c) + 1])
  /\ UNCHANGED <<nextId, handlers, pc, cid, ncalls, box, t0, dl, ctxd, sent, c2s, srvRead, answered, dRead,
                 dpc, dmsg, dch, rcvGate, reqGate, now, results>>

Tick ==
  /\ UNCHANGED <<chunks, chanErr>>
  /\ Timed /\ now < MaxTime /\ EnvOK
  \* time passes only while every caller waits (local computation takes no time) ...
  /\ \A p \in Procs : pc[p] \in {"idle", "wait"} \/ (pc[p] = "gate" /\ reqGate)
  \* ... and a timer fires at its deadline
  /\ \A p \in Procs : pc[p] = "wait" => now < dl[p]
  /\ \A p \in Procs : (pc[p] = "gate" /\ reqGate /\ ~Dev_GateIgnoresDeadline) => now < t0[p] + T
  /\ now' = now + 1
  /\ Rec([a |-> "tick"])
  /\ UNCHANGED <<nextId, handlers, pc, cid, ncalls, box, t0, dl, ctxd, sent, c2s, srvRead, answered, s2c, dRead,
                 dpc, dmsg, dch, rcvGate, reqGate, extra, results>>

---------------------------------------------------------------------------
Next ==
  \/ \E p \in Procs : \/ Invoke(p) \/ PassGate(p) \/ GateDeadline(p) \/ GateTimeout(p) \/ GateCancel(p) \/ AllocId(p) \/ Register(p)
                      \/ TakeMsg(p) \/ TimerArm(p) \/ Cancel(p) \/ InvokeCancelled(p) \/ ErrPop(p)
  \/ DRecv \/ DRecvPart \/ DPop \/ DLock \/ DHandoff \/ DGateEnter \/ DGatePass
  \/ SrvRead \/ RespondOpn
  \/ \E r \in sent : (\E kind \in Kinds : Respond(r, kind)) \/ Dup(r) \/ RespondPart(r)
  \/ \E i \in UnsolIds : Unsol(i)
  \/ Tick

Fair == /\ WF_vars(SrvRead) /\ WF_vars(DRecv) /\ WF_vars(DRecvPart) /\ WF_vars(DPop) /\ WF_vars(DLock) /\ WF_vars(DHandoff)
        /\ WF_vars(DGateEnter) /\ WF_vars(DGatePass)
        /\ \A p \in Procs : WF_vars(PassGate(p) \/ AllocId(p) \/ Register(p) \/ TakeMsg(p)
                                    \/ TimerArm(p) \/ ErrPop(p) \/ GateDeadline(p) \/ GateCancel(p))
        /\ WF_vars(Tick)
Spec == Init /\ [][Next]_vars /\ Fair

---------------------------------------------------------------------------
\* C18
InvOwnResponse == \A r \in results : r.out = "ok" => r.own
InvNoShare     == \A r1, r2 \in results : (r1.mid # 0 /\ r1.mid = r2.mid) => r1 = r2
InvTypeError   == \A r \in results : r.kind \in {"wrong", "echo"} => r.out # "ok"
InvFaultError  == \A r \in results : r.kind = "fault" => r.out # "ok"
\* a message in a caller's box is addressed to the call that waits there
InvBoxOwn      == \A p \in Procs : box[p] # NoMsg => (box[p].c = p /\ box[p].k = ncalls[p] + 1)

\* C19
Live(c, k)     == c \in Procs /\ ncalls[c] + 1 = k /\ pc[c] \in {"wait", "tmo", "ctxp"}
InvSlotFreed   == \A h \in handlers : Live(h.c, h.k)
InvBoundedWait == Timed => /\ \A r \in results : r.t1 <= r.t0 + T
                           /\ \A p \in Procs : pc[p] # "idle" => now <= t0[p] + T
\* the receive gate is only ever held on behalf of an opener that is still in flight
InvGateOwned   == rcvGate => (WithRenew /\ pc[Op] # "idle")
\* a response that is late for its caller must not turn into an error of the channel
InvNoChanErr   == ~chanErr
\* every response the server sent is eventually consumed by the dispatcher
NotWedged      == <>[](dRead = Len(s2c) /\ dpc \in {"recv", "gatew"} /\ ~rcvGate)

TypeOK == /\ dpc \in {"recv", "pop", "lock", "handoff", "gate", "gatew"}
          /\ \A p \in Procs : pc[p] \in {"idle", "gate", "id", "reg", "wait", "tmo", "ctxp"}

---------------------------------------------------------------------------
\* generation: print the recorded steps and the outcome of every call at terminal states
Terminal == /\ \A p \in Procs : pc[p] = "idle" /\ ncalls[p] = CallsOf(p)
            /\ Quiescent
Beh == [steps |-> hist,
        results |-> results,
        pending |-> Cardinality(handlers),
        wedged |-> rcvGate,
        unread |-> Len(s2c) - dRead,
        buffered |-> Cardinality(chunks), chanerr |-> chanErr,
        final |-> Snap]
InvEmit == (Mode # "mc" /\ Terminal) => PrintT("BEH " \o ToJson(Beh))
=============================================================================
