\* scripts: 2 callers x 2 calls, only two request ids: the counter wraps onto ids that may still be pending (duplicate registration must be refused and must leave the first user alone)
CONSTANTS
  Callers = {1, 2}
  MaxCalls = 2
  IdSeed = 0
  IdMax = 2
  UnsolIds = {0}
  MaxExtra = 0
  Kinds = {"ok"}
  WithRenew = FALSE
  Timed = FALSE
  T = 2
  MaxTime = 0
  EarlyCancel = FALSE
  MultiChunk = FALSE
  NoTimeouts = TRUE
  Mode = "script"
  SymBreak = TRUE
  Dev_OpnTimeoutWedge = FALSE
  Dev_LeakOnEarlyCancel = FALSE
  Dev_GateIgnoresDeadline = FALSE
  Dev_KeyMask = FALSE
  Dev_NoTypeCheck = FALSE
  Dev_NoPopOnTimeout = FALSE
  Dev_DropChunksOnTimeout = FALSE
INIT Init
NEXT Next
INVARIANTS InvOwnResponse InvNoShare InvTypeError InvFaultError InvSlotFreed InvGateOwned InvNoChanErr InvEmit
CHECK_DEADLOCK FALSE
