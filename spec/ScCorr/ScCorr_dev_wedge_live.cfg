\* demo (repaired in a6d06b1): the same as a liveness violation
CONSTANTS
  Callers = {1}
  MaxCalls = 1
  IdSeed = 3
  IdMax = 4
  UnsolIds = {0}
  MaxExtra = 1
  Kinds = {"ok"}
  WithRenew = TRUE
  Timed = FALSE
  T = 2
  MaxTime = 0
  EarlyCancel = FALSE
  MultiChunk = FALSE
  NoTimeouts = FALSE
  Mode = "mc"
  SymBreak = FALSE
  Dev_OpnTimeoutWedge = TRUE
  Dev_LeakOnEarlyCancel = FALSE
  Dev_GateIgnoresDeadline = FALSE
  Dev_KeyMask = FALSE
  Dev_NoTypeCheck = FALSE
  Dev_NoPopOnTimeout = FALSE
  Dev_DropChunksOnTimeout = FALSE
SPECIFICATION Spec
INVARIANTS TypeOK
PROPERTIES NotWedged
CHECK_DEADLOCK FALSE
