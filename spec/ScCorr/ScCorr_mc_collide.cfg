\* contract: request ids reused while pending (2 ids, 2 callers x 2 calls): every interleaving
CONSTANTS
  Callers = {1, 2}
  MaxCalls = 2
  IdSeed = 0
  IdMax = 2
  UnsolIds = {0}
  MaxExtra = 0
  Kinds = {"ok"}
  WithRenew = FALSE
  Timed = FALSE
  T = 2
  MaxTime = 0
  EarlyCancel = FALSE
  MultiChunk = FALSE
  NoTimeouts = TRUE
  Mode = "mc"
  SymBreak = FALSE
  Dev_OpnTimeoutWedge = FALSE
  Dev_LeakOnEarlyCancel = FALSE
  Dev_GateIgnoresDeadline = FALSE
  Dev_KeyMask = FALSE
  Dev_NoTypeCheck = FALSE
  Dev_NoPopOnTimeout = FALSE
  Dev_DropChunksOnTimeout = FALSE
INIT Init
NEXT Next
VIEW view
INVARIANTS TypeOK InvOwnResponse InvNoShare InvBoxOwn InvSlotFreed InvGateOwned InvNoChanErr
CHECK_DEADLOCK FALSE
