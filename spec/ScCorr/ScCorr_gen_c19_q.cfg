\* scripts: 1 caller + renewal, early context end
CONSTANTS
  Callers = {1}
  MaxCalls = 1
  IdSeed = 3
  IdMax = 4
  UnsolIds = {0, 3}
  MaxExtra = 1
  Kinds = {"ok"}
  WithRenew = TRUE
  Timed = FALSE
  T = 2
  MaxTime = 0
  EarlyCancel = TRUE
  MultiChunk = FALSE
  NoTimeouts = FALSE
  Mode = "script"
  SymBreak = TRUE
  Dev_OpnTimeoutWedge = FALSE
  Dev_LeakOnEarlyCancel = FALSE
  Dev_GateIgnoresDeadline = FALSE
  Dev_KeyMask = FALSE
  Dev_NoTypeCheck = FALSE
  Dev_NoPopOnTimeout = FALSE
  Dev_DropChunksOnTimeout = FALSE
INIT Init
NEXT Next
INVARIANTS InvOwnResponse InvNoShare InvTypeError InvFaultError InvSlotFreed InvGateOwned InvNoChanErr InvEmit
CHECK_DEADLOCK FALSE
