\* forced schedules: 1 caller + renewal, dispatcher hand-over vs error arms
CONSTANTS
  Callers = {1}
  MaxCalls = 1
  IdSeed = 3
  IdMax = 4
  UnsolIds = {0, 3}
  MaxExtra = 0
  Kinds = {"ok"}
  WithRenew = TRUE
  Timed = FALSE
  T = 2
  MaxTime = 0
  EarlyCancel = FALSE
  MultiChunk = FALSE
  NoTimeouts = FALSE
  Mode = "race"
  SymBreak = TRUE
  Dev_OpnTimeoutWedge = FALSE
  Dev_LeakOnEarlyCancel = FALSE
  Dev_GateIgnoresDeadline = FALSE
  Dev_KeyMask = FALSE
  Dev_NoTypeCheck = FALSE
  Dev_NoPopOnTimeout = FALSE
  Dev_DropChunksOnTimeout = FALSE
INIT Init
NEXT Next
INVARIANTS InvOwnResponse InvNoShare InvTypeError InvFaultError InvSlotFreed InvGateOwned InvNoChanErr InvEmit
CHECK_DEADLOCK FALSE
