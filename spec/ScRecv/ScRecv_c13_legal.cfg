SPECIFICATION Spec
CONSTANTS
  Plans <- LegalAfterAborts
  Interleave = FALSE
  SeqParams <- SeqPlain
  Modes = {"None", "Sign", "SignAndEncrypt"}
  Splits = {"any", "tinyfirst", "tinylast"}
  PreInjects = {"none"}
  Moves = {}
  Damages = {}
  Injects = {}
  Budget = 0
  MaxChunks = 4
  Sweeps <- NoSweep
  SigLen = 32
  Dev_NoSeqCheck = FALSE
  Dev_MergeDupFilter = FALSE
  Dev_ShortChunkPanics = FALSE
  Dev_ResetSeqOnRenew = FALSE
  Dev_PerRequestBound = FALSE
  AsIs_NoSeqCheck = FALSE
  AsIs_MergeDupFilter = FALSE
  AsIs_ShortChunkPanics = FALSE
  AsIs_PerRequestBound = FALSE
INVARIANTS InvBounded InvReassembly InvEmit
CHECK_DEADLOCK FALSE
