SPECIFICATION Spec
CONSTANTS
  Plans <- PlansC13
  Interleave = TRUE
  SeqParams <- SeqPlain
  Modes = {"None", "Sign", "SignAndEncrypt"}
  Splits = {"any"}
  PreInjects = {"none"}
  Moves = {}
  Damages = {}
  Injects = {}
  Budget = 0
  MaxChunks = 3
  Sweeps <- NoSweep
  SigLen = 32
  Dev_NoSeqCheck = FALSE
  Dev_MergeDupFilter = FALSE
  Dev_ShortChunkPanics = FALSE
  Dev_ResetSeqOnRenew = FALSE
  Dev_PerRequestBound = FALSE
  AsIs_NoSeqCheck = FALSE
  AsIs_MergeDupFilter = FALSE
  AsIs_ShortChunkPanics = FALSE
  AsIs_PerRequestBound = FALSE
INVARIANTS InvBounded InvNoCrash InvNoReplay InvIntegrity InvSenderConforms
PROPERTY StepSeqMonotone
VIEW view
CHECK_DEADLOCK FALSE
