SPECIFICATION Spec
CONSTANTS
  Plans <- PlansC10
  Interleave = FALSE
  SeqParams <- SeqC10
  Modes = {"Sign"}
  Splits = {"any"}
  PreInjects = {"none"}
  Moves = {"replay", "hold", "drop", "renew"}
  Damages = {}
  Injects = {}
  Budget = 2
  MaxChunks = 0
  Sweeps <- NoSweep
  SigLen = 32
  Dev_NoSeqCheck = FALSE
  Dev_MergeDupFilter = FALSE
  Dev_ShortChunkPanics = FALSE
  Dev_ResetSeqOnRenew = FALSE
  Dev_PerRequestBound = FALSE
  AsIs_NoSeqCheck = FALSE
  AsIs_MergeDupFilter = FALSE
  AsIs_ShortChunkPanics = FALSE
  AsIs_PerRequestBound = TRUE
INVARIANTS InvEmit
CHECK_DEADLOCK FALSE
