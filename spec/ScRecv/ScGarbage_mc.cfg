SPECIFICATION Spec
CONSTANTS
  Sides = {"server", "client"}
  Modes = {"None", "Sign", "SignAndEncrypt"}
  Emit = FALSE
  Dev_ShortChunkPanics = FALSE
INVARIANT InvSurvives
CHECK_DEADLOCK FALSE
