SPECIFICATION Spec
CONSTANTS
  NTok = 3
  Lifetime = 4
  MaxTime = 12
  Injections = 3
  Dev_ExpiryWrongKey = FALSE
  AsIs_ExpiryWrongKey = FALSE
INVARIANTS InvExpired InvActiveUsable InvNotEarly
VIEW view
CHECK_DEADLOCK FALSE
