SPECIFICATION Spec
CONSTANTS
  NTok = 3
  Lifetimes = {8, 20, 400}
  MaxTime = 30
  Injections = 2
  RenewEarly = 2
  LateFrom = 26
  Dev_ExpiryWrongKey = FALSE
  Dev_PrefixOnly = FALSE
  AsIs_ExpiryWrongKey = FALSE
INVARIANTS InvExpired InvActiveUsable InvNotEarly
VIEW view
CHECK_DEADLOCK FALSE
