---------------------------- MODULE ScRecvTrace ----------------------------
(***************************************************************************)
(* Trace validation for spec/ScRecv: the inputs a real channel was given   *)
(* (chunks of the base stream as the adversary let them through) and the   *)
(* events the real receiving channel produced (recv.chunk hook = accepted  *)
(* chunk, Receive returns) are read from trace.ndjson; TLC feeds the       *)
(* inputs to the receiver of ScRecv (the operators Outcome / RecvF, with   *)
(* the deviation flags of the configuration) and checks that the recorded  *)
(* events are exactly the ones the specification produces, evaluating the  *)
(* receiver invariants in every state of the trace.                        *)
(*                                                                         *)
(* Log records (one JSON object per line; many traces in one file):        *)
(*   [ev |-> "reset", mode, reqs]                 a new channel            *)
(*   [ev |-> "in", via, id, dmg, seq, req, kind, msg, part, over]          *)
(*   [ev |-> "acc", seq, req, kind]               chunk accepted           *)
(*   [ev |-> "renew", seq]                        token renewal: the OPN   *)
(*                                                chunk took number seq    *)
(*   [ev |-> "ret", err, msg]                     Receive returned: error, *)
(*                                                or message msg (0: some  *)
(*                                                other content)           *)
(* All inputs of a trace come first, then the receiver's events: the two   *)
(* are recorded by different goroutines, only the order inside each is     *)
(* meaningful.                                                             *)
(***************************************************************************)
EXTENDS ScRecv_MC, TLCExt

Log == ndJsonDeserialize("trace.ndjson")

VARIABLES l,      \* next log record
          tr,     \* receiver state (record as rc)
          pend    \* events the specification expects, not yet matched
tvars == <<l, tr, pend>>

TraceFlags == FlagsC

NoRecv0 == [lastSeq |-> None, partial |-> [r \in {} |-> <<>>], accepted |-> <<>>, delivered |-> <<>>,
            crashed |-> FALSE, desync |-> FALSE]

TInit == /\ l = 1 /\ tr = NoRecv0 /\ pend = <<>>
         /\ TLCSet(1, 1)
         \* the variables of ScRecv that the receiver operators read
         /\ mode = "None"
         /\ plan = <<>> /\ sp = Plain /\ sw = [kind |-> "none", from |-> 0] /\ split = "any" /\ pre = "none"
         /\ sentN = <<>> /\ nextSeq = 0 /\ wire = <<>> /\ held = <<>> /\ heldAge = 0 /\ budget = 0 /\ renewed = FALSE
         /\ rc = NoRecv0 /\ ra = NoRecv0 /\ hist = <<>>

Keep == UNCHANGED <<plan, sp, sw, split, pre, sentN, nextSeq, wire, held, heldAge, budget, renewed, rc, ra, hist>>

More == l <= Len(Log)

TReset == /\ More /\ Log[l].ev = "reset" /\ pend = <<>>
          /\ mode' = Log[l].mode
          /\ tr' = [NoRecv0 EXCEPT !.partial = [r \in {Log[l].reqs[i] : i \in 1..Len(Log[l].reqs)} |-> <<>>]]
          /\ pend' = <<>> /\ l' = l + 1 /\ Keep

\* expected events, all with the same fields: how = "err" | "msg" | "any" for returns
Ret(how, m) == [ev |-> "ret", how |-> how, msg |-> m, seq |-> 0, req |-> 0, kind |-> ""]
Expected(o, c, kept) ==
  LET acc == [ev |-> "acc", how |-> "", msg |-> 0, seq |-> c.seq, req |-> c.req, kind |-> c.kind] IN
  CASE o = "reject"  -> <<Ret("err", 0)>>
    [] o = "buffer"  -> <<acc>>
    [] o \in {"toomany", "abort", "toobig"} -> <<acc, Ret("err", 0)>>
    [] o = "deliver" -> <<acc, IF IsWhole(kept, c) THEN Ret("msg", c.msg) ELSE Ret("any", 0)>>
    [] o = "close"   -> <<Ret("err", 0)>>
    [] OTHER         -> <<>>

TIn == /\ More /\ Log[l].ev = "in"
       /\ ~tr.crashed /\ ~tr.desync
       /\ LET e == Log[l]
              c == [id |-> e.id, seq |-> e.seq, req |-> e.req, msg |-> e.msg, part |-> e.part, kind |-> e.kind, over |-> e.over]
              o == Outcome(tr, c, e.dmg, TraceFlags)
          IN /\ tr' = RecvF(tr, c, e.dmg, e.via, TraceFlags)
             /\ pend' = pend \o Expected(o, c, Kept(tr, c, TraceFlags))
       /\ l' = l + 1 /\ UNCHANGED mode /\ Keep

Matches(w, e) ==
  /\ w.ev = e.ev
  /\ IF w.ev = "acc" THEN w.seq = e.seq /\ w.req = e.req /\ w.kind = e.kind
     ELSE CASE w.how = "any" -> TRUE
            [] w.how = "err" -> e.err
            [] w.how = "msg" -> ~e.err /\ w.msg = e.msg

TObs == /\ More /\ Log[l].ev \in {"acc", "ret"}
        /\ pend # <<>> /\ Matches(Head(pend), Log[l])
        /\ pend' = Tail(pend) /\ l' = l + 1
        /\ UNCHANGED <<tr, mode>> /\ Keep

\* the OPN chunk of a renewal: the receiver's sequence state moves to its number
TRenew == /\ More /\ Log[l].ev = "renew"
          /\ tr' = [tr EXCEPT !.lastSeq = IF SeqFollows(@, Log[l].seq) THEN Log[l].seq ELSE @]
          /\ l' = l + 1 /\ UNCHANGED <<pend, mode>> /\ Keep

TNext == TReset \/ TIn \/ TObs \/ TRenew
TSpec == TInit /\ [][TNext]_<<tvars, vars>>

\* the receiver invariants, on the state driven by the recorded inputs
TInvNoReplay ==
  /\ \A i, j \in 1..Len(tr.accepted) : i # j => tr.accepted[i].id # tr.accepted[j].id
  /\ \A i \in 1..Len(tr.accepted) - 1 : tr.accepted[i + 1].seq - tr.accepted[i].seq > 0
TInvIntegrity == \A i \in 1..Len(tr.accepted) : tr.accepted[i].dmg = "none"

\* accepted iff the whole log was consumed and nothing expected is outstanding
\* (the file ends with a "reset" record, which is only consumed when nothing expected is outstanding)
TMark == TLCSet(1, IF l > TLCGet(1) THEN l ELSE TLCGet(1))
TPost == TLCGet(1) = Len(Log) + 1
=============================================================================
