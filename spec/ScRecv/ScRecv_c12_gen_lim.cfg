SPECIFICATION Spec
CONSTANTS
  Plans <- PlansLim
  Interleave = FALSE
  SeqParams <- SeqPlain
  Modes = {"None", "SignAndEncrypt"}
  Splits = {"even", "tinylast"}
  PreInjects = {"none"}
  Moves = {}
  Damages = {}
  Injects = {}
  Budget = 0
  MaxChunks = 40
  Sweeps <- NoSweep
  SigLen = 32
  Dev_NoSeqCheck = FALSE
  Dev_MergeDupFilter = FALSE
  Dev_ShortChunkPanics = FALSE
  Dev_ResetSeqOnRenew = FALSE
  Dev_PerRequestBound = FALSE
  AsIs_NoSeqCheck = FALSE
  AsIs_MergeDupFilter = FALSE
  AsIs_ShortChunkPanics = FALSE
  AsIs_PerRequestBound = TRUE
INVARIANTS InvReassembly InvBounded InvNoReplay InvEmit
CHECK_DEADLOCK FALSE
