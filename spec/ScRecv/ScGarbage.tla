----------------------------- MODULE ScGarbage -----------------------------
(***************************************************************************)
(* C13 -- what the receive path of a secure channel may do with a frame    *)
(* that no conforming peer would send.  Relation specification: one TLC    *)
(* state per (receiving side, security mode, phase, class of frame); the   *)
(* specification gives the set of allowed reactions.  Every row is         *)
(* replayed on a real channel in a child process.                          *)
(*                                                                         *)
(* Reactions of the receiver to one frame                                  *)
(*   error    Receive returns an error, the channel keeps reading          *)
(*   eof      Receive returns EOF / the channel closes                     *)
(*   accept   the frame is taken as an intermediate chunk or its content   *)
(*            is handed to the decoder and Receive returns its verdict     *)
(*   silent   nothing is returned and the channel keeps reading            *)
(*   panic    the process dies                                             *)
(*   hang     the receive goroutine stops reading (a later intact message  *)
(*            is not delivered although the channel did not close)         *)
(* The property: never panic, never hang; the reaction is in Allowed.      *)
(***************************************************************************)
EXTENDS Naturals, Sequences, FiniteSets, TLC, Json

CONSTANTS Sides, Modes, Emit,
          Dev_ShortChunkPanics     \* verifyAndDecrypt slices the signature off without a length check

Phases  == {"pre", "post"}          \* before / after the channel has been opened
Classes == {
  "type.unknown",      \* message type that does not exist
  "type.err",          \* a uacp ERR frame with a junk body
  "clo",               \* CLO with nothing behind it
  "msg.nochan",        \* MSG chunk for a channel id the receiver does not have
  "msg.junk",          \* MSG final chunk, right channel id, random bytes behind the header
  "msg.abort.junk",    \* MSG abort chunk, right channel id, random bytes behind the header
  "msg.short",         \* MSG chunk cut to 8..40 bytes (every length)
  "msg.body.trunc",    \* None mode: intact headers, a valid service body cut short
  "msg.body.hostile",  \* None mode: intact headers, body with hostile lengths (array length -2, 2^31-1)
  "opn.junkuri",       \* OPN with an unknown security policy URI
  "opn.junkcert",      \* OPN naming a real policy with a certificate that is not DER
  "opn.cert.stranger", \* OPN naming a real policy with the RSA certificate of somebody else and a random body
  "opn.eccert",        \* OPN naming a real policy with a well-formed certificate whose key is not RSA
  "opn.nocert",        \* OPN naming a real policy with a null certificate
  "opn.hugelen",       \* OPN whose policy URI length field is 2^31-1
  "opn.neglen",        \* OPN whose policy URI length field is -5
  "opn.junkbody",      \* OPN with a plausible security header and random bytes behind it
  "opn.short"          \* OPN cut to 8..40 bytes (every length)
}

VARIABLES side, mode, phase, class
vars == <<side, mode, phase, class>>

\* which rows exist
Applicable(s, m, p, c) ==
  /\ (c \in {"msg.body.trunc", "msg.body.hostile"} => m = "None" /\ p = "post")
  /\ (c \in {"msg.junk", "msg.abort.junk"} => p = "post")
  \* a client channel reads nothing before its own OPN request is out: "pre" is the answer to that request
  /\ TRUE

\* a frame whose content reaches the decoder unverified (None mode) is "accepted"; everything else is refused
\* (a short MSG chunk of 24 bytes or more is a chunk with an empty or cut body; an OPN frame that names
\* the policy None is unverified whatever the mode of the channel)
Unverified(m, c) == \/ m = "None" /\ c \in {"msg.junk", "msg.abort.junk", "msg.short", "msg.body.trunc", "msg.body.hostile"}
                    \/ c = "opn.junkbody"

Allowed(s, m, p, c) ==
  IF c = "clo" THEN {"eof"}
  ELSE IF Unverified(m, c) THEN {"accept", "error", "eof"}
  ELSE {"error", "eof"}

\* the code as it is: the missing length check is reached by short MSG chunks on an open Sign-mode channel
AsIs(s, m, p, c) ==
  IF Dev_ShortChunkPanics /\ c = "msg.short" /\ m = "Sign" /\ p = "post" THEN {"panic"} \cup Allowed(s, m, p, c)
  ELSE Allowed(s, m, p, c)

Init == /\ side \in Sides /\ mode \in Modes /\ phase \in Phases /\ class \in Classes
        /\ Applicable(side, mode, phase, class)
Next == UNCHANGED vars
Spec == Init /\ [][Next]_vars

\* the property on the table itself: no row allows a crash or a hang, every row allows some reaction
InvSurvives == /\ "panic" \notin AsIs(side, mode, phase, class)
               /\ "hang" \notin AsIs(side, mode, phase, class)
               /\ Allowed(side, mode, phase, class) # {}
\* after a reaction other than eof the channel must still deliver an intact message (post) -- not wedged
MustStayAlive(p, r) == p = "post" /\ r \in {"error", "accept", "silent"}

InvEmit == Emit => PrintT("ROW " \o ToJson([side |-> side, mode |-> mode, phase |-> phase, class |-> class,
                                            allowed |-> Allowed(side, mode, phase, class),
                                            asis |-> AsIs(side, mode, phase, class)]))
=============================================================================
