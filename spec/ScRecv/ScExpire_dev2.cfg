SPECIFICATION Spec
CONSTANTS
  NTok = 3
  Lifetimes = {8, 400}
  MaxTime = 14
  Injections = 1
  RenewEarly = 2
  LateFrom = 11
  Dev_ExpiryWrongKey = FALSE
  Dev_PrefixOnly = TRUE
  AsIs_ExpiryWrongKey = FALSE
INVARIANTS InvExpired
CHECK_DEADLOCK FALSE
