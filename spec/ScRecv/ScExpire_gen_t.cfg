SPECIFICATION Spec
CONSTANTS
  NTok = 3
  Lifetime = 4
  MaxTime = 7
  Injections = 2
  Dev_ExpiryWrongKey = FALSE
  AsIs_ExpiryWrongKey = FALSE
INVARIANTS InvEmit
CHECK_DEADLOCK FALSE
