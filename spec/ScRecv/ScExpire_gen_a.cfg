SPECIFICATION Spec
CONSTANTS
  NTok = 3
  Lifetimes = {8, 400}
  MaxTime = 15
  Injections = 2
  RenewEarly = 2
  LateFrom = 11
  Dev_ExpiryWrongKey = FALSE
  Dev_PrefixOnly = FALSE
  AsIs_ExpiryWrongKey = FALSE
INVARIANTS InvEmit
CHECK_DEADLOCK FALSE
