SPECIFICATION Spec
CONSTANTS
  Plans <- PlansC09
  Interleave = FALSE
  SeqParams <- SeqPlain
  Modes = {"Sign", "SignAndEncrypt"}
  Splits = {"any"}
  PreInjects = {"none"}
  Moves = {"damage"}
  Damages <- DamagesAll
  Injects = {}
  Budget = 2
  MaxChunks = 0
  Sweeps <- NoSweep
  SigLen = 32
  Dev_NoSeqCheck = FALSE
  Dev_MergeDupFilter = FALSE
  Dev_ShortChunkPanics = FALSE
  Dev_ResetSeqOnRenew = FALSE
  Dev_PerRequestBound = FALSE
  AsIs_NoSeqCheck = FALSE
  AsIs_MergeDupFilter = FALSE
  AsIs_ShortChunkPanics = FALSE
  AsIs_PerRequestBound = TRUE
INVARIANTS InvEmit
CHECK_DEADLOCK FALSE
