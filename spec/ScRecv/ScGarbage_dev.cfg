SPECIFICATION Spec
CONSTANTS
  Sides = {"server", "client"}
  Modes = {"None", "Sign", "SignAndEncrypt"}
  Emit = FALSE
  Dev_ShortChunkPanics = TRUE
INVARIANT InvSurvives
CHECK_DEADLOCK FALSE
