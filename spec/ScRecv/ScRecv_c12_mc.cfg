SPECIFICATION Spec
CONSTANTS
  Plans <- PlansC12
  Interleave = TRUE
  SeqParams <- SeqC12
  Modes = {"None"}
  Splits = {"any", "even", "tinyfirst", "tinylast"}
  PreInjects = {"none"}
  Moves = {}
  Damages = {}
  Injects = {}
  Budget = 0
  MaxChunks = 0
  Sweeps <- NoSweep
  SigLen = 32
  Dev_NoSeqCheck = FALSE
  Dev_MergeDupFilter = FALSE
  Dev_ShortChunkPanics = FALSE
  Dev_ResetSeqOnRenew = FALSE
  Dev_PerRequestBound = FALSE
  AsIs_NoSeqCheck = FALSE
  AsIs_MergeDupFilter = FALSE
  AsIs_ShortChunkPanics = FALSE
  AsIs_PerRequestBound = FALSE
INVARIANTS InvReassembly InvNoReplay InvNoDoubleDelivery InvIntegrity InvNoCrash InvSenderConforms
PROPERTY StepSeqMonotone
VIEW view
CHECK_DEADLOCK FALSE
