------------------------------- MODULE ScRecv -------------------------------
(***************************************************************************)
(* Receive side of a secure channel (uasc/secure_channel.go: Receive,      *)
(* readChunk, verifyAndDecrypt, mergeChunks) under a chunk sender and an   *)
(* active adversary on the wire.  Properties C09, C10, C12, C13 (C17 is in *)
(* ScExpire, which reuses the acceptance rule).                            *)
(*                                                                         *)
(* Processes                                                               *)
(*   sender     a conforming chunk writer: messages of 1..n chunks, the    *)
(*              last one final (F) or abort (A), sequence numbers +1 with  *)
(*              the Part 6 wrap (only from a value > 2^32-1025, to a value *)
(*              < 1024), optionally interleaving messages by request id.   *)
(*              Interleave = FALSE is the gopcua sender (one message at a  *)
(*              time under the instance lock); TRUE is the reference       *)
(*              sender of C12.                                             *)
(*   adversary  decides what the receiver sees: pass, damage (a region is  *)
(*              rewritten, the chunk truncated/extended, or forged without *)
(*              keys), drop, replay of an earlier chunk, hold + release    *)
(*              (re-ordering).                                             *)
(*   receiver   one action per incoming frame, written in the order of the *)
(*              code: framing, message type, token lookup + verification,  *)
(*              sequence header (contract: sequence check), chunk type     *)
(*              switch: abort / buffer (+ chunk count limit) / merge and   *)
(*              deliver.                                                   *)
(*                                                                         *)
(* Sequence numbers are the real uint32 values in two's complement (TLC    *)
(* integers are 32 bit): 2^32-k is written -k.  ULess is the unsigned      *)
(* order.                                                                  *)
(*                                                                         *)
(* Deviations (each FALSE in the contract).  Dev_NoSeqCheck,               *)
(* Dev_MergeDupFilter and Dev_ShortChunkPanics were defects of the pinned  *)
(* tree, repaired by b87ca08, 5eadfcf and 93c609a: they stay as deviation  *)
(* demos (non-vacuity) but are FALSE in the as-is configuration, so a      *)
(* regression is a violation again.                                        *)
(*   Dev_NoSeqCheck       readChunk decodes the sequence header and never  *)
(*                        compares it with the last accepted number        *)
(*   Dev_MergeDupFilter   mergeChunks skips a chunk whose number equals    *)
(*                        the previously kept one, starting from 0: the    *)
(*                        first chunk of a message is lost when its number *)
(*                        is 0                                             *)
(*   Dev_ShortChunkPanics verifyAndDecrypt slices b[len(b)-sigLen:] before *)
(*                        checking the length                              *)
(*   Dev_PerRequestBound  intermediate chunks are bounded per request id   *)
(*                        only                                             *)
(***************************************************************************)
EXTENDS Integers, Sequences, FiniteSets, TLC, Json

CONSTANTS
  Plans,           \* set of plans; plan = sequence of [n |-> chunks, ab |-> BOOLEAN, cut |-> chunks actually sent,
                   \*   sz |-> size of the message body relative to the negotiated MaxMessageSize:
                   \*          "small", "near" (90 %), "limit" (exactly), "over" (limit + 1)]
  Interleave,      \* sender may interleave chunks of different messages
  SeqParams,       \* set of [first |-> s, wrapAfter |-> w, wrapTo |-> t]; wrapAfter = NoWrap: no wrap
  Modes,           \* security modes explored: subset of {"None", "Sign", "SignAndEncrypt"}
  Splits,          \* how the reference sender cuts a message body into its chunks (a conforming sender may cut
                   \* anywhere): "any" (seeded), "even", "tinyfirst" (1-2 bytes, then full chunks, short last),
                   \* "tinylast" (full chunks, 1-2 bytes last)
  PreInjects,      \* a frame of the adversary's own before the channel is opened ("none": nothing)
  Moves,           \* subset of {"damage", "drop", "replay", "hold"}
  Damages,         \* damage classes the adversary may apply
  Injects,         \* classes of frames of its own the adversary may insert between chunks ("inject" move)
  Budget,          \* number of adversary moves per behaviour
  MaxChunks,       \* negotiated MaxChunkCount (0 = unlimited)
  Sweeps,          \* set of [kind |-> "none"] (no sweep) or [kind |-> "sweep.trunc" | "sweep.byte", from |-> k]:
                   \* every chunk is damaged while budget is left; chunk id i is cut to length
                   \* 8 + from + i - 1 resp. rewritten at byte from + i - 1
  SigLen,          \* sweeps: signature length of the policy (32: HMAC-SHA256, 20: HMAC-SHA1)
  \* deviation flags of the receiver under verification (rc) ...
  Dev_NoSeqCheck, Dev_MergeDupFilter, Dev_ShortChunkPanics, Dev_PerRequestBound,
  Dev_ResetSeqOnRenew,   \* the receiver starts a new sequence window when the token is renewed
  \* ... and of the as-is receiver (ra) that is fed the same inputs in generation runs, so that
  \* one behaviour carries both the contract outcome and the outcome of the code as it is
  AsIs_NoSeqCheck, AsIs_MergeDupFilter, AsIs_ShortChunkPanics, AsIs_PerRequestBound

NoWrap == 99999
None   == -99999

FlagsC == [noseq |-> Dev_NoSeqCheck, dupf |-> Dev_MergeDupFilter, short |-> Dev_ShortChunkPanics, perreq |-> Dev_PerRequestBound]
FlagsA == [noseq |-> AsIs_NoSeqCheck, dupf |-> AsIs_MergeDupFilter, short |-> AsIs_ShortChunkPanics, perreq |-> AsIs_PerRequestBound]

VARIABLES
  plan, sp, mode, sw, split, pre,  \* chosen at Init
  sentN,           \* message -> chunks handed to the wire so far
  nextSeq,         \* sender: next sequence number
  wire,            \* base stream so far (what the sender wrote), for replay
  renewed,         \* the token has been renewed in this behaviour
  held,            \* chunk held back by the adversary (<<>>: none, <<c>>), heldAge = chunks passed meanwhile
  heldAge,
  budget,
  rc,              \* receiver under verification: record
                   \*   lastSeq    last accepted sequence number (None: nothing yet)
                   \*   partial    request id -> sequence of buffered chunks
                   \*   accepted   every chunk that passed readChunk, in order [id, seq, dmg, via]
                   \*   delivered  delivered messages, each the sequence of chunk ids merged
                   \*   crashed    the process died (panic)
                   \*   desync     framing lost (size field rewritten): nothing further is predictable
  ra,              \* the as-is receiver, same inputs
  hist             \* history of inputs with both outcomes

sender   == <<plan, sp, mode, sw, split, pre, sentN, nextSeq, wire>>
advers   == <<held, heldAge, budget, renewed>>
vars     == <<sender, advers, rc, ra, hist>>
view     == <<sender, advers, rc>>

---------------------------------------------------------------------------
\* unsigned order on two's complement numbers, Part 6 6.7.2.4 wrap zones
ULess(a, b)  == IF (a >= 0) = (b >= 0) THEN a < b ELSE a >= 0
HighZone(s)  == s < 0 /\ s >= -1024          \* > 4 294 966 271
LowZone(s)   == s >= 0 /\ s < 1024
\* s follows last: ahead of it in serial-number arithmetic (s - last, computed on the two's complement
\* values, is the distance modulo 2^32 when it is below 2^31), and crossing 2^32 -> 0 only as Part 6
\* allows.  A copy of a chunk sent before the wrap is therefore still "behind" after the wrap.
SeqFollows(last, s) == \/ last = None
                       \/ /\ s - last > 0
                          /\ (last < 0 /\ s >= 0) => (HighZone(last) /\ LowZone(s))

Msgs      == 1..Len(plan)
ReqOf(m)  == m                                \* request id of message m (the harness maps it)
Started(m)  == sentN[m] > 0
Finished(m) == sentN[m] = plan[m].cut
InProgress(m) == Started(m) /\ ~Finished(m)

KindOf(m, k) == IF k < plan[m].n THEN "C" ELSE IF plan[m].ab THEN "A" ELSE "F"

RInit(p) == [lastSeq |-> None, partial |-> [r \in {ReqOf(m) : m \in 1..Len(p)} |-> <<>>],
             accepted |-> <<>>, delivered |-> <<>>, crashed |-> FALSE, desync |-> FALSE]

Init ==
  /\ plan \in Plans
  /\ sp \in SeqParams
  /\ mode \in Modes
  /\ sw \in Sweeps
  /\ split \in Splits
  /\ pre \in PreInjects      \* refused before the handshake; the receiver starts from its initial state
  /\ sentN = [m \in 1..Len(plan) |-> 0]
  /\ nextSeq = sp.first
  /\ wire = <<>>
  /\ held = <<>> /\ heldAge = 0 /\ renewed = FALSE
  /\ budget = Budget
  /\ rc = RInit(plan) /\ ra = RInit(plan)
  /\ hist = <<>>

---------------------------------------------------------------------------
\* The receiver: what one incoming frame c with damage class d ("none" = intact) does to the
\* receiver state r under the deviation flags F.  The order of the tests is the order of the code:
\* uacp framing, message header / type, channel lookup + verifyAndDecrypt, sequence header,
\* then the chunk type switch of Receive.

\* mergeChunks as written: skip a chunk whose number equals the previously kept one (initially 0)
RECURSIVE DupFilter(_, _)
DupFilter(cs, prev) ==
  IF cs = <<>> THEN <<>>
  ELSE IF Head(cs).seq = prev THEN DupFilter(Tail(cs), prev)
       ELSE <<Head(cs)>> \o DupFilter(Tail(cs), Head(cs).seq)
Merge(cs, F) == IF F.dupf /\ Len(cs) > 1 THEN DupFilter(cs, 0) ELSE cs

Ids(cs) == [i \in 1..Len(cs) |-> cs[i].id]

RECURSIVE SumLen(_, _)
SumLen(f, S) == IF S = {} THEN 0 ELSE LET x == CHOOSE y \in S : TRUE IN Len(f[x]) + SumLen(f, S \ {x})
TotalBuffered(r) == SumLen(r.partial, DOMAIN r.partial)

\* Damage classes (what the adversary does to a chunk; the harness picks seeded bytes inside):
\*   hdr.type hdr.chunk hdr.chan tok seqhdr body sig   a region of the chunk is rewritten
\*   hdr.type.clo     the message type is rewritten to CLO (close, handled before verification)
\*   hdr.size         the size field is rewritten: framing is lost for everything that follows
\*   trunc.lt12 trunc.lt16 trunc.ltsig trunc.short trunc.minus1 trunc.block
\*                    cut (size field adjusted) below the message header, below the security header,
\*                    to 16 <= length < signature length, to less than sequence header + signature,
\*                    by one byte, by several bytes (Sign) / whole cipher blocks (SignAndEncrypt)
\*   sweep.byte sweep.trunc   the i-th chunk is rewritten at byte i / cut to length 8 + i (every
\*                    position and every length of a chunk, one after the other on one channel)
\*   extend           bytes appended (size field adjusted)
\*   forge.nokeys forge.wrongkeys   a chunk made without / with other keys in place of the peer's
DesyncDamage == {"hdr.size"}
CloseDamage  == {"hdr.type.clo"}
\* An OPN frame of the adversary's own (naming the policy None, or a real policy with a stranger's RSA
\* certificate, a non-RSA certificate, bytes that are no certificate): it is refused; whether the
\* channel is still usable for the peer's later chunks is not a question of C09 (an adversary on the
\* path can always cut the channel) -- outcome "shake": from here on only "a damaged or forged chunk
\* is never accepted, nothing crashes" is demanded of the code, while the model itself goes on.
OpnInjects   == {"opn.none", "opn.cert.stranger", "opn.eccert", "opn.junkcert"}
\* damage class that hits the missing length check: verifyAndDecrypt slices the signature off a
\* chunk shorter than a signature (only where nothing is decrypted first, i.e. in Sign mode)
ShortDamage  == {"trunc.ltsig"}
ForceDamage  == sw.kind # "none"
SweepLen(c)  == 8 + sw.from + c.id - 1
IsShort(c, d) == d \in ShortDamage \/ (d = "sweep.trunc" /\ SweepLen(c) >= 16 /\ SweepLen(c) < SigLen)

Outcome(r, c, d, F) ==
  IF d \in DesyncDamage THEN "desync"
  ELSE IF d \in CloseDamage THEN "close"               \* a CLO chunk ends the channel, nothing is delivered
  ELSE IF d \in OpnInjects /\ c.id = 0 THEN "shake"
  ELSE IF IsShort(c, d) /\ F.short /\ mode = "Sign" THEN "panic"
  ELSE IF d # "none" THEN "reject"                     \* framing / type / channel / verification
  ELSE IF ~F.noseq /\ ~SeqFollows(r.lastSeq, c.seq) THEN "reject"
  ELSE CASE c.kind = "A" -> "abort"
         [] c.kind = "C" ->
              IF MaxChunks > 0 /\
                 (IF F.perreq THEN Len(r.partial[c.req]) + 1 > MaxChunks
                              ELSE TotalBuffered(r) + 1 > MaxChunks)
                THEN "toomany" ELSE "buffer"
         \* Receive merges the chunks and compares the length of the BODY with MaxMessageSize: a message
         \* within the limit is delivered however many chunks carried it, one above it is refused
         [] c.kind = "F" -> IF c.over /\ Len(r.partial[c.req]) + 1 = c.part THEN "toobig" ELSE "deliver"

Kept(r, c, F) == Merge(Append(r.partial[c.req], c), F)
IsWhole(kept, c) == Len(kept) = c.part /\ \A i \in 1..Len(kept) : kept[i].msg = c.msg /\ kept[i].part = i

RecvF(r, c, d, via, F) ==
  LET o   == Outcome(r, c, d, F)
      acc == o \in {"abort", "buffer", "toomany", "deliver", "toobig"}
  IN [lastSeq   |-> IF acc /\ SeqFollows(r.lastSeq, c.seq) THEN c.seq ELSE r.lastSeq,
      partial   |-> CASE o = "buffer" -> [r.partial EXCEPT ![c.req] = Append(@, c)]
                      [] o \in {"toomany", "abort", "deliver", "toobig"} -> [r.partial EXCEPT ![c.req] = <<>>]
                      [] OTHER -> r.partial,
      accepted  |-> IF acc THEN Append(r.accepted, [id |-> c.id, seq |-> c.seq, dmg |-> d, via |-> via]) ELSE r.accepted,
      delivered |-> IF o = "deliver" THEN Append(r.delivered, Ids(Kept(r, c, F))) ELSE r.delivered,
      crashed   |-> (o = "panic"),
      desync    |-> (o \in {"desync", "close"})]

HistEntry(c, d, via) ==
  LET oc == Outcome(rc, c, d, FlagsC)
      oa == Outcome(ra, c, d, FlagsA)
      kc == Kept(rc, c, FlagsC)
      ka == Kept(ra, c, FlagsA)
  IN [in |-> via, id |-> c.id, dmg |-> d, kind |-> c.kind, req |-> c.req, seq |-> c.seq,
      expect |-> oc, asis |-> oa,
      parts |-> IF oc = "deliver" THEN Ids(kc) ELSE <<>>, whole |-> (oc = "deliver" /\ IsWhole(kc, c)),
      asis_parts |-> IF oa = "deliver" THEN Ids(ka) ELSE <<>>, asis_whole |-> (oa = "deliver" /\ IsWhole(ka, c))]

Recv(c, d, via) ==
  /\ rc' = RecvF(rc, c, d, via, FlagsC)
  /\ ra' = IF ra.crashed THEN ra ELSE RecvF(ra, c, d, via, FlagsA)
  /\ hist' = Append(hist, HistEntry(c, d, via))

NoRecv(c, via) ==
  /\ UNCHANGED <<rc, ra>>
  /\ hist' = Append(hist, [in |-> via, id |-> c.id, dmg |-> "none", kind |-> c.kind, req |-> c.req, seq |-> c.seq,
                           expect |-> "none", asis |-> "none", parts |-> <<>>, whole |-> FALSE,
                           asis_parts |-> <<>>, asis_whole |-> FALSE])

---------------------------------------------------------------------------
\* The sender hands its next chunk to the wire; the adversary decides its fate.

CanSend(m) ==
  /\ m \in Msgs /\ ~Finished(m)
  /\ (m > 1 => Started(m - 1))                                     \* messages start in order
  /\ (~Interleave => \A m2 \in Msgs \ {m} : ~InProgress(m2))

Chunk(m) == [id |-> Len(wire) + 1, seq |-> nextSeq, req |-> ReqOf(m), msg |-> m,
             part |-> sentN[m] + 1, kind |-> KindOf(m, sentN[m] + 1), over |-> (plan[m].sz = "over")]

Advance(m) ==
  /\ sentN' = [sentN EXCEPT ![m] = @ + 1]
  /\ wire' = Append(wire, Chunk(m))
  /\ nextSeq' = IF nextSeq = sp.wrapAfter THEN sp.wrapTo
                ELSE IF nextSeq = -1 THEN 0 ELSE nextSeq + 1
  /\ UNCHANGED <<plan, sp, mode, sw, split, pre>>

Alive == ~rc.crashed /\ ~rc.desync

\* Losing a chunk next to the wrap point leaves a step that crosses 2^32 from below the zone Part 6
\* names; whether a receiver tolerates that is not part of any property here, so the adversary
\* loses / holds chunks only in streams that do not wrap (replays never create such a step).
GapMovesOK == sp.wrapAfter = NoWrap /\ sp.first > 0

Age == heldAge' = IF held = <<>> THEN 0 ELSE heldAge + 1

Pass(m)   == /\ Alive /\ CanSend(m) /\ Advance(m)
             /\ (ForceDamage => budget = 0)
             /\ Recv(Chunk(m), "none", "pass")
             /\ Age /\ UNCHANGED <<held, budget, renewed>>

Damage(m, d) == /\ Alive /\ "damage" \in Moves /\ budget > 0 /\ CanSend(m) /\ Advance(m)
                /\ d \in Damages /\ (ForceDamage => d = sw.kind)
                /\ Recv(Chunk(m), d, "damage")
                /\ budget' = budget - 1 /\ Age /\ UNCHANGED <<held, renewed>>

Drop(m)   == /\ Alive /\ "drop" \in Moves /\ GapMovesOK /\ budget > 0 /\ CanSend(m) /\ Advance(m)
             /\ NoRecv(Chunk(m), "drop")
             /\ budget' = budget - 1 /\ Age /\ UNCHANGED <<held, renewed>>

Hold(m)   == /\ Alive /\ "hold" \in Moves /\ GapMovesOK /\ budget > 0 /\ held = <<>> /\ CanSend(m) /\ Advance(m)
             /\ held' = <<Chunk(m)>> /\ heldAge' = 0
             /\ NoRecv(Chunk(m), "hold")
             /\ budget' = budget - 1 /\ UNCHANGED renewed

\* the held chunk arrives after at least one later chunk
Release   == /\ Alive /\ held # <<>> /\ heldAge > 0
             /\ Recv(held[1], "none", "reorder")
             /\ held' = <<>> /\ heldAge' = 0 /\ UNCHANGED <<sender, budget, renewed>>

\* The token is renewed between two messages ("renew" in Moves, at most once).  The OPN exchange
\* takes one sequence number of the stream's direction; numbering continues (Part 6: the sequence
\* number is not reset when a token is renewed), the old token stays valid for its lifetime, so a
\* copy of a chunk sent before the renewal still verifies -- and must still be refused.
RenewTok == /\ Alive /\ "renew" \in Moves /\ ~renewed
            /\ wire # <<>> /\ \E m \in Msgs : CanSend(m)
            /\ \A m \in Msgs : ~InProgress(m)
            /\ renewed' = TRUE
            /\ nextSeq' = IF nextSeq = sp.wrapAfter THEN sp.wrapTo ELSE IF nextSeq = -1 THEN 0 ELSE nextSeq + 1
            \* the receiver sees the OPN chunk of the exchange: it carries the stream's next number
            /\ rc' = IF Dev_ResetSeqOnRenew THEN [rc EXCEPT !.lastSeq = None]
                      ELSE [rc EXCEPT !.lastSeq = IF SeqFollows(@, nextSeq) THEN nextSeq ELSE @]
            /\ ra' = [ra EXCEPT !.lastSeq = IF SeqFollows(@, nextSeq) THEN nextSeq ELSE @]
            /\ hist' = Append(hist, [in |-> "renew", id |-> Len(wire), dmg |-> "none", kind |-> "-", req |-> 0, seq |-> nextSeq,
                                     expect |-> "none", asis |-> "none", parts |-> <<>>, whole |-> FALSE,
                                     asis_parts |-> <<>>, asis_whole |-> FALSE])
            /\ Age /\ UNCHANGED <<plan, sp, mode, sw, split, pre, sentN, wire, held, budget>>

\* a verbatim copy of a chunk the receiver has already been shown
Replay(j) == /\ Alive /\ "replay" \in Moves /\ budget > 0
             /\ j \in 1..Len(wire) /\ (held # <<>> => held[1].id # j)
             /\ Recv(wire[j], "none", "replay")
             /\ budget' = budget - 1 /\ Age /\ UNCHANGED <<sender, held, renewed>>

\* a frame of the adversary's own making (an OPN frame naming the policy None, a frame of an unknown
\* type ...) between two chunks of the stream: refused, and it must not change what happens to
\* later chunks -- in particular a forged chunk is still refused afterwards
Pseudo(g) == [id |-> 0, seq |-> 0, req |-> 0, msg |-> 0, part |-> 0, kind |-> "X", over |-> FALSE]
Inject(g) == /\ Alive /\ "inject" \in Moves /\ budget > 0 /\ g \in Injects
             /\ \E m \in Msgs : CanSend(m)             \* not after the last chunk
             /\ Recv(Pseudo(g), g, "inject")
             /\ budget' = budget - 1 /\ Age /\ UNCHANGED <<sender, held, renewed>>

Next == \/ RenewTok
        \/ \E g \in Injects : Inject(g)
        \/ \E m \in Msgs : Pass(m) \/ Drop(m) \/ Hold(m) \/ \E d \in Damages : Damage(m, d)
        \/ Release
        \/ \E j \in 1..Len(wire) : Replay(j)

Spec == Init /\ [][Next]_vars

SenderDone == \A m \in Msgs : Finished(m)
Terminal   == ~Alive \/ (SenderDone /\ held = <<>>)

---------------------------------------------------------------------------
\* Properties (of the receiver under verification, rc)

\* C10: no chunk is accepted twice and accepted sequence numbers follow each other
InvNoReplay ==
  /\ \A i, j \in 1..Len(rc.accepted) : i # j => rc.accepted[i].id # rc.accepted[j].id
  \* strictly increasing in serial-number arithmetic (the OPN chunk of a renewal may lie in between,
  \* so the legality of a wrap is checked where it happens: StepSeqMonotone)
  /\ \A i \in 1..Len(rc.accepted) - 1 : rc.accepted[i + 1].seq - rc.accepted[i].seq > 0
InvNoDoubleDelivery ==
  LET RECURSIVE Flat(_)
      Flat(ss) == IF ss = <<>> THEN <<>> ELSE Head(ss) \o Flat(Tail(ss))
      f == Flat(rc.delivered)
  IN \A i, j \in 1..Len(f) : i # j => f[i] # f[j]

\* C09: only intact chunks of the peer are ever accepted; damaged ones are refused without a crash
InvIntegrity ==
  /\ \A i \in 1..Len(rc.accepted) : rc.accepted[i].dmg = "none" /\ rc.accepted[i].id > 0
  \* whatever chunk comes next, a damaged version of it is refused (evaluated in every state)
  /\ \A m \in Msgs : CanSend(m) =>
        \A d \in Damages \ (DesyncDamage \cup CloseDamage) : Outcome(rc, Chunk(m), d, FlagsC) \in {"reject"}

\* C13: the process survives and the chunk buffer respects the negotiated limit
InvNoCrash == ~rc.crashed
InvBounded == MaxChunks > 0 => TotalBuffered(rc) <= MaxChunks

\* C12: without an adversary every completed, non-aborted message is delivered whole, in completion order
ChunksOf(m) == SelectSeq(wire, LAMBDA c : c.msg = m)
CompletedOrder == LET fin == SelectSeq(wire, LAMBDA c : c.kind = "F" /\ ~c.over) IN [i \in 1..Len(fin) |-> fin[i].msg]
InvReassembly ==
  (budget = Budget /\ held = <<>>) =>
     /\ Len(rc.delivered) = Len(CompletedOrder)
     /\ \A i \in 1..Len(rc.delivered) : rc.delivered[i] = Ids(ChunksOf(CompletedOrder[i]))
     \* an abort cancels exactly its own message
     /\ \A m \in Msgs : (Finished(m) /\ plan[m].cut = plan[m].n) => rc.partial[ReqOf(m)] = <<>>
     /\ \A m \in Msgs : InProgress(m) => Ids(rc.partial[ReqOf(m)]) = Ids(ChunksOf(m))

\* the receiver's sequence state never moves backwards
StepSeqMonotone == [][rc.lastSeq' = rc.lastSeq \/ SeqFollows(rc.lastSeq, rc.lastSeq')]_vars

\* the sender is conforming: consecutive chunks differ by one or wrap legally
SuccSeq(x) == IF x = sp.wrapAfter THEN sp.wrapTo ELSE IF x = -1 THEN 0 ELSE x + 1
InvSenderConforms ==
  \* the wrap the sender performs is one Part 6 allows ...
  /\ sp.wrapAfter = NoWrap \/ (HighZone(sp.wrapAfter) /\ LowZone(sp.wrapTo))
  \* ... and consecutive chunks carry consecutive numbers (the OPN chunk of a renewal takes one)
  /\ \A i \in 1..Len(wire) - 1 :
       \/ wire[i + 1].seq = SuccSeq(wire[i].seq)
       \/ (renewed /\ wire[i + 1].seq = SuccSeq(SuccSeq(wire[i].seq)))

---------------------------------------------------------------------------
\* behaviour emission (generation configs only)
Beh == [plan |-> plan, sp |-> sp, mode |-> mode, sweep |-> sw, split |-> split, pre |-> pre, chunks |-> wire, steps |-> hist,
        maxchunks |-> MaxChunks, buffered |-> TotalBuffered(rc), asis_buffered |-> TotalBuffered(ra)]
InvEmit == Terminal => PrintT("BEH " \o ToJson(Beh))
=============================================================================
