SPECIFICATION Spec
CONSTANTS
  Sides = {"server", "client"}
  Modes = {"None", "Sign", "SignAndEncrypt"}
  Emit = TRUE
  Dev_ShortChunkPanics = FALSE
INVARIANT InvEmit
CHECK_DEADLOCK FALSE
