------------------------------ MODULE ScExpire ------------------------------
(***************************************************************************)
(* C17 -- chunks secured with an expired token are rejected.               *)
(*                                                                         *)
(* The receiving channel keeps the security tokens it accepts (SecureChan- *)
(* nel.instances[channel id], newest last; verifyAndDecrypt tries every    *)
(* one, newest first).  A renewal appends a token; a timer per token       *)
(* (scheduleExpiration) removes it at created + 1.25 x lifetime.  A peer   *)
(* -- or somebody who learnt old keys -- injects well-formed chunks with a *)
(* fresh sequence number, protected with the keys of some token.           *)
(*                                                                         *)
(* Time is discrete (ticks).  Expiry is urgent: the clock does not advance *)
(* past the moment a superseded token is due while it is still stored.     *)
(*                                                                         *)
(* Deviation Dev_ExpiryWrongKey (the pinned code, repaired by 954271b):    *)
(* the timer's clean-up looks the tokens up under the wrong map key (token *)
(* id instead of channel id) and removes nothing.  Kept as deviation demo; *)
(* FALSE in the as-is configuration.                                       *)
(***************************************************************************)
EXTENDS Integers, Sequences, FiniteSets, TLC, Json

CONSTANTS NTok,        \* tokens issued in a behaviour (1 + number of renewals)
          Lifetime,    \* ticks; grace = Lifetime / 4
          MaxTime,     \* ticks explored
          Injections,  \* injected chunks per behaviour
          Dev_ExpiryWrongKey, AsIs_ExpiryWrongKey

Due(c) == c + Lifetime + Lifetime \div 4

VARIABLES now, issued, created, rc, ra, left, hist
\* issued: number of tokens issued so far; created[t]: issue time; rc / ra: set of token ids stored by
\* the receiver under verification / the as-is receiver; left: injections left
vars == <<now, issued, created, rc, ra, left, hist>>
view == <<now, issued, created, rc, left>>

Init == /\ now = 0 /\ issued = 1 /\ created = [t \in 1..NTok |-> 0]
        /\ rc = {1} /\ ra = {1} /\ left = Injections /\ hist = <<>>

Superseded(t) == t < issued
Overdue(t)    == Superseded(t) /\ now >= Due(created[t])

\* OpenSecureChannel(Renew): the new token is stored next to the old ones
Renew == /\ issued < NTok
         /\ issued' = issued + 1
         /\ created' = [created EXCEPT ![issued + 1] = now]
         /\ rc' = rc \cup {issued + 1} /\ ra' = ra \cup {issued + 1}
         /\ hist' = Append(hist, [act |-> "renew", t |-> issued + 1, now |-> now])
         /\ UNCHANGED <<now, left>>

\* scheduleExpiration's timer for token t fires
ExpireF(S, t, wrongKey) == IF wrongKey THEN S ELSE S \ {t}
Expire(t) == /\ t \in 1..issued /\ Overdue(t) /\ (t \in rc \/ t \in ra)
             /\ \lnot (Dev_ExpiryWrongKey /\ AsIs_ExpiryWrongKey)   \* otherwise nothing ever changes
             /\ rc' = ExpireF(rc, t, Dev_ExpiryWrongKey)
             /\ ra' = ExpireF(ra, t, AsIs_ExpiryWrongKey)
             /\ rc' # rc \/ ra' # ra
             /\ hist' = Append(hist, [act |-> "expire", t |-> t, now |-> now])
             /\ UNCHANGED <<now, issued, created, left>>

\* timers are punctual: no tick while a stored token of the receiver under verification is overdue
TimersDone(S, wrongKey) == wrongKey \/ \A t \in S : ~Overdue(t)
Tick == /\ now < MaxTime
        /\ TimersDone(rc, Dev_ExpiryWrongKey) /\ TimersDone(ra, AsIs_ExpiryWrongKey)
        /\ now' = now + 1
        /\ UNCHANGED <<issued, created, rc, ra, left, hist>>

\* a well-formed chunk with a fresh sequence number, protected with the keys of token t
Verdict(S, t) == IF t \in S THEN "accept" ELSE "reject"
Inject(t) == /\ left > 0 /\ t \in 1..issued
             /\ TimersDone(rc, Dev_ExpiryWrongKey) /\ TimersDone(ra, AsIs_ExpiryWrongKey)
             /\ left' = left - 1
             /\ hist' = Append(hist, [act |-> "inject", t |-> t, now |-> now,
                                      overdue |-> Overdue(t), active |-> (t = issued),
                                      expect |-> Verdict(rc, t), asis |-> Verdict(ra, t)])
             /\ UNCHANGED <<now, issued, created, rc, ra>>

Next == Renew \/ Tick \/ (\E t \in 1..NTok : Expire(t) \/ Inject(t))
Spec == Init /\ [][Next]_vars

\* C17: a chunk protected with a superseded token whose lifetime plus grace has elapsed is rejected
InvExpired == \A t \in 1..issued : (Overdue(t) /\ TimersDone(rc, Dev_ExpiryWrongKey)) => Verdict(rc, t) = "reject"
\* sanity (not C17): the newest token is always accepted, a token is never dropped before it is due
InvActiveUsable == issued \in rc
InvNotEarly     == \A t \in 1..issued : (~Overdue(t)) => t \in rc

Terminal == left = 0
\* emit only behaviours that test something: at least one overdue injection
Interesting == \E i \in 1..Len(hist) : hist[i].act = "inject" /\ hist[i].overdue
InvEmit == (Terminal /\ Interesting) => PrintT("BEH " \o ToJson([lifetime |-> Lifetime, ntok |-> NTok, steps |-> hist]))
=============================================================================
