------------------------------ MODULE ScExpire ------------------------------
(***************************************************************************)
(* C17 -- chunks secured with an expired token are rejected.               *)
(*                                                                         *)
(* The receiving channel keeps the security tokens it accepts (SecureChan- *)
(* nel.instances[channel id], newest last; verifyAndDecrypt tries every    *)
(* one, newest first).  A renewal appends a token with the lifetime the    *)
(* OpenSecureChannel exchange revised for it -- every token its own; one   *)
(* timer per token (scheduleExpiration) removes it once it has been        *)
(* replaced and created + 1.25 x lifetime has passed.  A peer -- or some-  *)
(* body who learnt old keys -- injects well-formed chunks with a fresh     *)
(* sequence number, protected with the keys of some token.                 *)
(*                                                                         *)
(* Time is discrete (tick = 250 ms in the replay).  Expiry is urgent: the  *)
(* clock does not advance past the moment a replaced token is due while it *)
(* is still stored.  Tokens need not become due in the order they were     *)
(* issued (long, short, long), and a token may become due while it is      *)
(* still the active one: it goes when a later renewal replaces it.         *)
(*                                                                         *)
(* Renewals happen early (now <= RenewEarly) or late (now >= LateFrom):    *)
(* in between the client's own renewal timers (0.75 x lifetime) are        *)
(* pending against a peer that does not answer them.                       *)
(*                                                                         *)
(* Deviation Dev_ExpiryWrongKey (the pinned code, repaired by 954271b):    *)
(* the timer's clean-up looks the tokens up under the wrong map key and    *)
(* removes nothing.  Dev_PrefixOnly: the clean-up removes only the overdue *)
(* tokens at the front of the list (assumes expiry in issue order).  Both  *)
(* are deviation demos; FALSE in the as-is configuration.                  *)
(***************************************************************************)
EXTENDS Integers, Sequences, FiniteSets, TLC, Json

CONSTANTS NTok,        \* tokens issued in a behaviour (1 + number of renewals)
          Lifetimes,   \* lifetimes (ticks, multiples of 4) a token may get
          MaxTime,     \* ticks explored
          Injections,  \* injected chunks per behaviour
          RenewEarly, LateFrom,
          Dev_ExpiryWrongKey, Dev_PrefixOnly, AsIs_ExpiryWrongKey

VARIABLES now, issued, created, life, rc, ra, left, hist
\* issued: tokens issued so far; created[t], life[t]: issue time and lifetime of token t; rc / ra: token ids
\* stored by the receiver under verification / the as-is receiver; left: injections left
vars == <<now, issued, created, life, rc, ra, left, hist>>
view == <<now, issued, created, life, rc, left>>

Due(t) == created[t] + life[t] + life[t] \div 4

Init == /\ now = 0 /\ issued = 1 /\ created = [t \in 1..NTok |-> 0]
        /\ life \in [1..NTok -> Lifetimes]          \* the lifetime each token will get
        /\ rc = {1} /\ ra = {1} /\ left = Injections /\ hist = <<>>

Superseded(t) == t < issued
Overdue(t)    == Superseded(t) /\ now >= Due(t)

\* what a due timer / a renewal sweeps away
Sweep(S, wrongKey, prefixOnly) ==
  IF wrongKey THEN S
  ELSE IF prefixOnly
         THEN {t \in S : ~(\A u \in S : u <= t => Overdue(u))}    \* only an overdue front of the list goes
         ELSE {t \in S : ~Overdue(t)}
SweepC(S) == Sweep(S, Dev_ExpiryWrongKey, Dev_PrefixOnly)
SweepA(S) == Sweep(S, AsIs_ExpiryWrongKey, FALSE)

\* timers are punctual: nothing else happens while a stored token is overdue and a sweep would remove it
Settled == SweepC(rc) = rc /\ SweepA(ra) = ra

\* OpenSecureChannel(Renew): the new token is stored next to the old ones
Renew == /\ Settled /\ issued < NTok /\ (now <= RenewEarly \/ now >= LateFrom)
         /\ issued' = issued + 1
         /\ created' = [created EXCEPT ![issued + 1] = now]
         /\ rc' = rc \cup {issued + 1} /\ ra' = ra \cup {issued + 1}
         /\ hist' = Append(hist, [act |-> "renew", t |-> issued + 1, now |-> now, life |-> life[issued + 1]])
         /\ UNCHANGED <<now, life, left>>

\* an expiry timer fires (or the renewal's own clean-up runs)
Expire == /\ ~Settled
          /\ rc' = SweepC(rc) /\ ra' = SweepA(ra)
          /\ hist' = Append(hist, [act |-> "expire", t |-> 0, now |-> now, life |-> 0])
          /\ UNCHANGED <<now, issued, created, life, left>>

Tick == /\ now < MaxTime /\ Settled
        /\ now' = now + 1
        /\ UNCHANGED <<issued, created, life, rc, ra, left, hist>>

\* a well-formed chunk with a fresh sequence number, protected with the keys of token t; injected while
\* the token is fresh (one tick after its issue), when it has just become overdue, and some time later
Verdict(S, t) == IF t \in S THEN "accept" ELSE "reject"
InjectNow(t) == \/ ~Overdue(t) /\ now = created[t] + 1
                \/ Overdue(t) /\ (now = Due(t) \/ now = created[t + 1] \/ now = Due(t) + 3 \/ now = created[t + 1] + 3)
Inject(t) == /\ Settled /\ left > 0 /\ t \in 1..issued /\ InjectNow(t)
             /\ left' = left - 1
             /\ hist' = Append(hist, [act |-> "inject", t |-> t, now |-> now, life |-> life[t],
                                      overdue |-> Overdue(t), active |-> (t = issued),
                                      expect |-> Verdict(rc, t), asis |-> Verdict(ra, t)])
             /\ UNCHANGED <<now, issued, created, life, rc, ra>>

Next == Renew \/ Tick \/ Expire \/ (\E t \in 1..NTok : Inject(t))
Spec == Init /\ [][Next]_vars

\* C17: a chunk protected with a replaced token whose lifetime plus grace has elapsed is rejected
InvExpired == \A t \in 1..issued : (Overdue(t) /\ Settled) => Verdict(rc, t) = "reject"
\* sanity (not C17): the newest token is always accepted, a token is never dropped before it is due
InvActiveUsable == issued \in rc
InvNotEarly     == \A t \in 1..issued : (~Overdue(t)) => t \in rc

Terminal == left = 0
\* emit only behaviours that test something: at least one overdue injection
Interesting == \E i \in 1..Len(hist) : hist[i].act = "inject" /\ hist[i].overdue
InvEmit == (Terminal /\ Interesting) =>
             PrintT("BEH " \o ToJson([ntok |-> NTok, life1 |-> life[1], steps |-> hist]))
=============================================================================
