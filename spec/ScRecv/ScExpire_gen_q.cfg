SPECIFICATION Spec
CONSTANTS
  NTok = 2
  Lifetime = 4
  MaxTime = 6
  Injections = 2
  Dev_ExpiryWrongKey = FALSE
  AsIs_ExpiryWrongKey = FALSE
INVARIANTS InvEmit
CHECK_DEADLOCK FALSE
