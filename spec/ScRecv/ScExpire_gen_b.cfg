SPECIFICATION Spec
CONSTANTS
  NTok = 2
  Lifetimes = {20, 400}
  MaxTime = 29
  Injections = 2
  RenewEarly = 2
  LateFrom = 26
  Dev_ExpiryWrongKey = FALSE
  Dev_PrefixOnly = FALSE
  AsIs_ExpiryWrongKey = FALSE
INVARIANTS InvEmit
CHECK_DEADLOCK FALSE
