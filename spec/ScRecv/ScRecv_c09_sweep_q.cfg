SPECIFICATION Spec
CONSTANTS
  Plans <- Sweep8
  Interleave = FALSE
  SeqParams <- SeqPlain
  Modes = {"Sign", "SignAndEncrypt"}
  Splits = {"any"}
  PreInjects = {"none"}
  Moves = {"damage"}
  Damages = {"sweep.byte", "sweep.trunc"}
  Injects = {}
  Budget = 8
  MaxChunks = 0
  Sweeps <- SweepsQ
  SigLen = 32
  Dev_NoSeqCheck = FALSE
  Dev_MergeDupFilter = FALSE
  Dev_ShortChunkPanics = FALSE
  Dev_ResetSeqOnRenew = FALSE
  Dev_PerRequestBound = FALSE
  AsIs_NoSeqCheck = FALSE
  AsIs_MergeDupFilter = FALSE
  AsIs_ShortChunkPanics = FALSE
  AsIs_PerRequestBound = TRUE
INVARIANTS InvEmit
CHECK_DEADLOCK FALSE
