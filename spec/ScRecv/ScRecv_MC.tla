---------------------------- MODULE ScRecv_MC ----------------------------
EXTENDS ScRecv

M(n)     == [n |-> n, ab |-> FALSE, cut |-> n, sz |-> "small"]
MA(n)    == [n |-> n, ab |-> TRUE,  cut |-> n, sz |-> "small"]
MCut(n, k) == [n |-> n, ab |-> FALSE, cut |-> k, sz |-> "small"]
MS(n, z) == [n |-> n, ab |-> FALSE, cut |-> n, sz |-> z]

Plain    == [first |-> 2, wrapAfter |-> NoWrap, wrapTo |-> 0]
SeqPlain == {Plain}
SeqWrapGo == [first |-> -1026, wrapAfter |-> -1024, wrapTo |-> 1]   \* the gopcua sender: ... 2^32-1024, 1, 2
SeqC10   == {Plain, SeqWrapGo}

\* ---- C10: streams of the gopcua sender (one message at a time), replay / re-order / drop
PlansC10q == { <<M(1), M(2), M(1)>> }
PlansC10  == { <<M(1), M(2), M(1)>>, <<M(3), M(1)>>, <<M(2), M(2)>> }

\* ---- C09: damage classes (regions of the chunk, truncations, extension, forgery)
DamagesAll == {"hdr.type", "hdr.type.clo", "hdr.chunk", "hdr.size", "hdr.chan", "tok", "seqhdr", "body", "sig",
               "trunc.lt12", "trunc.lt16", "trunc.ltsig", "trunc.short", "trunc.minus1", "trunc.block",
               "extend", "forge.nokeys", "forge.wrongkeys"}
\* sweep: one message per byte position / truncation length of a chunk, every one damaged
Sweep(k) == { [i \in 1..k |-> M(1)] }
Sweep8   == Sweep(8)
NoSweep  == {[kind |-> "none", from |-> 0]}
\* quick: every truncation length 8..55 and 48 byte positions; thorough: lengths 8..263, bytes 0..255
SweepsQ  == {[kind |-> "sweep.trunc", from |-> 8 * i] : i \in 0..5} \cup {[kind |-> "sweep.byte", from |-> 8 * i] : i \in 0..5}
SweepsT  == {[kind |-> "sweep.trunc", from |-> 8 * i] : i \in 0..31} \cup {[kind |-> "sweep.byte", from |-> 8 * i] : i \in 0..31}
PlansC09  == { <<M(1), M(2), M(1)>> }

\* ---- C12: reference sender: interleaving, aborts, wrap to small values including 0
SeqC12   == { Plain,
              [first |-> -1026, wrapAfter |-> -1024, wrapTo |-> 0],      \* wraps as early as allowed, to 0
              [first |-> -1025, wrapAfter |-> -1024, wrapTo |-> 1],
              [first |-> -3,    wrapAfter |-> NoWrap, wrapTo |-> 0],     \* runs to 2^32-1, then 0
              [first |-> -1026, wrapAfter |-> -1023, wrapTo |-> 1023] }
PlansC12q == { <<M(2), M(1), M(2)>>, <<M(2), MA(2), M(1)>>, <<M(3), M(2)>> }
PlansC12  == { <<M(2), M(1), M(2)>>, <<M(2), MA(2), M(1)>>, <<M(3), M(2)>>, <<MA(1), M(2), M(1)>>,
               <<M(2), M(2), MA(3)>>, <<M(1), M(1), M(1), M(1)>> }

\* ---- C12 at the negotiated limits (MaxMessageSize 16384 and MaxChunkCount 40 through the ACK):
\* bodies at / just below / above MaxMessageSize in many small chunks and in few large ones; rounds of
\* aborted partial messages (more aborted chunks than MaxChunkCount in total) before ordinary messages
PlansLim  == { <<MS(38, "limit"), M(1)>>, <<MS(2, "limit"), M(2)>>, <<MS(38, "near"), MS(3, "near")>>,
               <<MS(12, "over"), M(1)>>, <<MS(2, "over"), MS(19, "limit")>>,
               <<MA(15), MA(15), MA(15), M(5), M(3), M(1)>>,
               <<MA(3), MA(19), MA(2), MA(19), MA(5), MS(30, "near"), M(4)>> }

\* ---- C20: histories of single- and multi-chunk messages received back to back
PlansC20  == [1..3 -> {M(1), M(2), M(3)}]

\* ---- C13: floods of intermediate chunks over many request ids, never completed
PlansC13  == { <<MCut(2, 1), MCut(2, 1), MCut(2, 1), MCut(2, 1), M(1)>>,
               <<MCut(4, 3), MCut(2, 1), M(1)>>,
               <<MCut(5, 4), M(1)>> }
\* k request ids with c intermediate chunks each, none of them ever completed
Flood(k, c) == [i \in 1..k |-> MCut(c + 1, c)]
\* (Flood(3, 6) also exceeds the limit inside one request id: the "too many chunks" path)
\* a history of complete (single- and multi-chunk) and aborted messages in front of the flood: whatever
\* the receiver counts must be back at zero when the flood starts
History   == <<M(2), M(1), M(3), MA(2), M(2), M(1), M(2), MA(3), M(4), M(1), M(2), M(3)>>
FloodsQ   == { Flood(40, 1), Flood(14, 3), Flood(3, 6), History \o Flood(16, 1), History \o Flood(6, 3) }
\* aborted partial messages, then a legal message of MaxChunks intermediate chunks + final: it must be
\* delivered (conforming streams, compared event by event)
LegalAfterAborts == { <<MA(3), MA(4), MA(2), M(5), M(1)>>, <<M(5), MA(5), M(5)>>, <<MA(1), M(3), MA(4), M(5)>> }
FloodsT   == FloodsQ \cup { Flood(120, 1), Flood(30, 4), Flood(6, 4), Flood(2, 12), History \o History \o Flood(40, 1) }
=============================================================================
