SPECIFICATION Spec
CONSTANTS
  NTok = 2
  Lifetime = 4
  MaxTime = 8
  Injections = 1
  Dev_ExpiryWrongKey = TRUE
  AsIs_ExpiryWrongKey = FALSE
INVARIANTS InvExpired
CHECK_DEADLOCK FALSE
