SPECIFICATION Spec
CONSTANTS
  Plans <- FloodsT
  Interleave = FALSE
  SeqParams <- SeqPlain
  Modes = {"None", "Sign", "SignAndEncrypt"}
  Splits = {"tinyfirst", "tinylast"}
  PreInjects = {"none"}
  Moves = {}
  Damages = {}
  Injects = {}
  Budget = 0
  MaxChunks = 4
  Sweeps <- NoSweep
  SigLen = 32
  Dev_NoSeqCheck = FALSE
  Dev_MergeDupFilter = FALSE
  Dev_ShortChunkPanics = FALSE
  Dev_ResetSeqOnRenew = FALSE
  Dev_PerRequestBound = FALSE
  AsIs_NoSeqCheck = FALSE
  AsIs_MergeDupFilter = FALSE
  AsIs_ShortChunkPanics = FALSE
  AsIs_PerRequestBound = FALSE
INVARIANTS InvBounded InvEmit
CHECK_DEADLOCK FALSE
