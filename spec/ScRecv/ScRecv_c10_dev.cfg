SPECIFICATION Spec
CONSTANTS
  Plans <- PlansC10q
  Interleave = FALSE
  SeqParams <- SeqPlain
  Modes = {"Sign"}
  Splits = {"any"}
  PreInjects = {"none"}
  Moves = {"replay", "hold", "drop"}
  Damages = {}
  Injects = {}
  Budget = 1
  MaxChunks = 0
  Sweeps <- NoSweep
  SigLen = 32
  Dev_NoSeqCheck = TRUE
  Dev_MergeDupFilter = FALSE
  Dev_ShortChunkPanics = FALSE
  Dev_ResetSeqOnRenew = FALSE
  Dev_PerRequestBound = FALSE
  AsIs_NoSeqCheck = FALSE
  AsIs_MergeDupFilter = FALSE
  AsIs_ShortChunkPanics = FALSE
  AsIs_PerRequestBound = FALSE
INVARIANTS InvNoReplay InvNoDoubleDelivery
CHECK_DEADLOCK FALSE
