SPECIFICATION Spec
CONSTANTS
  Plans <- PlansC10
  Interleave = FALSE
  SeqParams <- SeqC12
  Modes = {"Sign"}
  Splits = {"any"}
  PreInjects = {"none"}
  Moves = {"replay", "hold", "drop", "renew"}
  Damages = {}
  Injects = {}
  Budget = 2
  MaxChunks = 0
  Sweeps <- NoSweep
  SigLen = 32
  Dev_NoSeqCheck = FALSE
  Dev_MergeDupFilter = FALSE
  Dev_ShortChunkPanics = FALSE
  Dev_ResetSeqOnRenew = FALSE
  Dev_PerRequestBound = FALSE
  AsIs_NoSeqCheck = FALSE
  AsIs_MergeDupFilter = FALSE
  AsIs_ShortChunkPanics = FALSE
  AsIs_PerRequestBound = FALSE
INVARIANTS InvNoReplay InvNoDoubleDelivery InvIntegrity InvNoCrash InvSenderConforms
PROPERTY StepSeqMonotone
VIEW view
CHECK_DEADLOCK FALSE
