CONSTANTS
  Clients = {1, 2}
  Nodes = {"n1", "n2"}
  MaxOps = 2
  Writers = {1, 2}
  Readers = {1, 2}
  Dev_AsyncCache = FALSE
  Dev_LostWrite = FALSE
  EmitHist = FALSE
SPECIFICATION Spec
PROPERTY Refines
INVARIANTS TypeOK InvOnePlace InvReadValue InvReadFresh InvWriteApplied
CHECK_DEADLOCK FALSE
