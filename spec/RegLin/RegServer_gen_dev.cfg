CONSTANTS
  Clients = {1, 2}
  Nodes = {"n1"}
  MaxOps = 2
  Writers = {1, 2}
  Readers = {1, 2}
  Dev_AsyncCache = TRUE
  Dev_LostWrite = FALSE
  EmitHist = TRUE
SPECIFICATION Spec
INVARIANT InvEmit
CHECK_DEADLOCK FALSE
