---------------------------- MODULE RegLinTrace ----------------------------
(***************************************************************************)
(* C34 -- trace validation: a recorded history of call / ret / fail events *)
(* (stamped by the single harness sequencer) is accepted iff it is the     *)
(* visible part of a behaviour of RegLin; Lin is the silent step.          *)
(* Many histories are concatenated, separated by "reset" events.           *)
(* Acceptance = high-water mark of consumed events (TLCSet/TLCGet          *)
(* register 1) reaches the end of the log; run with -workers 1 and the     *)
(* depth-first state queue.  On rejection the postcondition prints         *)
(* STUCK <index of the first event no behaviour can consume>.              *)
(*                                                                         *)
(* events:  {"ev":"call","c":<client>,"op":"r"|"w"|"n","n":<node>,"v":<int>} *)
(*             (op "n": a write whose ret carries a Bad status -- refused)  *)
(*             (for a read, v of the call event = the value its ret carries) *)
(*          {"ev":"ret","c":<client>,"v":<int>}     (v: value read / written)*)
(*          {"ev":"fail","c":<client>}                                     *)
(*          {"ev":"reset"}                                                 *)
(***************************************************************************)
EXTENDS RegLin, Sequences, Json, TLC, Integers

Log == ndJsonDeserialize("trace.ndjson")

VARIABLE l
tvars == <<reg, st, l>>

TraceClients == {Log[i].c : i \in {j \in 1..Len(Log) : Log[j].ev # "reset"}}
TraceNodes == {Log[i].n : i \in {j \in 1..Len(Log) : Log[j].ev = "call"}}

More == l <= Len(Log)
IsEvent(e) == More /\ Log[l].ev = e /\ l' = l + 1

TInit == TLCSet(1, 1) /\ RInit /\ l = 1

TCall == IsEvent("call") /\ Call(Log[l].c, Log[l].op, Log[l].n, Log[l].v)
TRet  == IsEvent("ret") /\ Ret(Log[l].c, Log[l].v)
TFail == IsEvent("fail") /\ Fail(Log[l].c)
\* The silent step, restricted without loss of generality (keeps the search small):
\*  (a) a linearization point is taken only when the next logged event is a return: Lin steps
\*      commute with the Call events of other clients, so every linearization can be
\*      rearranged to take its points "as late as possible";
\*  (b) a read takes its point only while the register holds the value the read is going to
\*      return (the harness copies that value into the call event; Ret demands it anyway).
TLin  == /\ More /\ Log[l].ev = "ret"
         /\ \E c \in Clients : /\ st[c].phase \in {"called", "ghost"}
                               /\ st[c].op = "r" => reg[st[c].node] = st[c].val
                               /\ Lin(c)
         /\ UNCHANGED l
\* next history: every client idle or finished for good
TReset == /\ IsEvent("reset")
          /\ \A c \in Clients : st[c].phase \in {"idle", "ghost", "dead"}
          /\ reg' = [n \in Nodes |-> InitVal]
          /\ st' = [c \in Clients |-> Idle]

TNext == TCall \/ TRet \/ TFail \/ TLin \/ TReset
TSpec == TInit /\ [][TNext]_tvars

\* the search stops as soon as one behaviour has consumed the whole log
HighWater == /\ TLCSet(1, IF l > TLCGet(1) THEN l ELSE TLCGet(1))
             /\ (l = Len(Log) + 1 => TLCSet("exit", TRUE))
Accepted == IF TLCGet(1) = Len(Log) + 1 THEN TRUE
            ELSE PrintT("STUCK " \o ToString(TLCGet(1))) /\ FALSE
=============================================================================
