CONSTANTS
  Clients <- TraceClients
  Nodes <- TraceNodes
  InitVal = 0
  Vals = {}
SPECIFICATION TSpec
CONSTRAINT HighWater
POSTCONDITION Accepted
CHECK_DEADLOCK FALSE
