------------------------------- MODULE RegLin -------------------------------
(***************************************************************************)
(* C34 -- the contract: one atomic register per node.                      *)
(*                                                                         *)
(* A client operation is visible as two events, Call and Ret; in between   *)
(* the operation takes effect at one instant (the silent Lin step).  A     *)
(* history of Call/Ret events is linearizable with respect to a register   *)
(* per node exactly when it is the visible part of a behaviour of this     *)
(* module.  RegServer.tla (the server as written) is proved to refine      *)
(* this module; RegLinTrace.tla accepts a recorded history iff it is such  *)
(* a visible part.                                                         *)
(*                                                                         *)
(* An operation that failed on the client (time-out, bad status) is not a  *)
(* "successful operation": Fail turns it into a ghost that may still take  *)
(* effect at any later instant, or never.                                  *)
(***************************************************************************)
EXTENDS Naturals

CONSTANTS Clients,   \* client identities
          Nodes,     \* node identities
          InitVal    \* value of every node before the first write

VARIABLES reg,       \* reg[n]: current value of node n
          st         \* st[c]: [phase, op, node, val, res]

rvars == <<reg, st>>

Idle == [phase |-> "idle", op |-> "r", node |-> "", val |-> InitVal, res |-> InitVal]

RInit == /\ reg = [n \in Nodes |-> InitVal]
         /\ st = [c \in Clients |-> Idle]

\* client c invokes  op ("r" | "w" | "n" = a write that is going to be refused)  on node n;  v is the value to write (ignored for reads)
Call(c, op, n, v) ==
    /\ st[c].phase = "idle"
    /\ st' = [st EXCEPT ![c] = [phase |-> "called", op |-> op, node |-> n, val |-> v, res |-> InitVal]]
    /\ UNCHANGED reg

\* the operation of c takes effect (linearization point).  A ghost (failed on the
\* client side) may still take effect once.
Lin(c) ==
    /\ st[c].phase \in {"called", "ghost"}
    /\ LET o == st[c]
           ph == IF o.phase = "called" THEN "lin" ELSE "dead"
       IN CASE o.op = "w" -> /\ reg' = [reg EXCEPT ![o.node] = o.val]
                             /\ st' = [st EXCEPT ![c].phase = ph]
            [] o.op = "r" -> /\ UNCHANGED reg
                             /\ st' = [st EXCEPT ![c].phase = ph, ![c].res = reg[o.node]]
            \* "n": a write the server refuses (Bad status, e.g. a read-only node): no effect
            [] OTHER      -> /\ UNCHANGED reg
                             /\ st' = [st EXCEPT ![c].phase = ph]

\* the operation of c returns successfully; a read returns v
Ret(c, v) ==
    /\ st[c].phase = "lin"
    /\ st[c].op = "r" => st[c].res = v
    /\ st' = [st EXCEPT ![c] = Idle]
    /\ UNCHANGED reg

\* the operation of c failed on the client side: whether and when it took effect is unknown.
\* The client issues no further operation (the harness stops it).
Fail(c) ==
    /\ st[c].phase \in {"called", "lin"}
    /\ st' = [st EXCEPT ![c].phase = IF st[c].phase = "called" THEN "ghost" ELSE "dead"]
    /\ UNCHANGED reg

\* For model checking RegLin on its own (sanity): small value domain
CONSTANT Vals
RNext == \/ \E c \in Clients, n \in Nodes : Call(c, "r", n, InitVal) \/ \E v \in Vals : Call(c, "w", n, v)
         \/ \E c \in Clients : Lin(c) \/ Fail(c) \/ \E v \in Vals \cup {InitVal} : Ret(c, v)

RSpec == RInit /\ [][RNext]_rvars

RTypeOK == /\ \A n \in Nodes : reg[n] \in Vals \cup {InitVal}
           /\ \A c \in Clients : st[c].phase \in {"idle", "called", "lin", "ghost", "dead"}

\* a read that is about to return always returns a value that was the register content at
\* some instant inside its interval -- here: the content at its Lin step (by construction);
\* what can be stated as a state invariant is "no value out of thin air":
InvNoThinAir == \A c \in Clients : st[c].phase = "lin" /\ st[c].op = "r" => st[c].res \in Vals \cup {InitVal}
=============================================================================
