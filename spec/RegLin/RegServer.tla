------------------------------ MODULE RegServer ------------------------------
(***************************************************************************)
(* C34 -- the server as written, one action per step of the real code:     *)
(*                                                                         *)
(*   ClientCall    a client goroutine sends a Read / Write request          *)
(*                 (opcua.Client.Read / Write -> uasc send)                *)
(*   ConnReceive   channelBroker.RegisterConn: sc.Receive() on the         *)
(*                 connection's own goroutine                              *)
(*   DispatchTake  rendezvous on the unbuffered channelBroker.msgChan:     *)
(*                 RegisterConn `c.msgChan <- msg` meets                   *)
(*                 Server.monitorConnections `cb.ReadMessage`              *)
(*   Handle        the single dispatcher goroutine runs                    *)
(*                 AttributeService.Read (NodeNameSpace.Attribute ->       *)
(*                 Node.Attribute -> n.val()) or AttributeService.Write    *)
(*                 (NodeNameSpace.SetAttribute -> Node.SetAttribute,       *)
(*                 n.val = closure over the written DataValue)             *)
(*   Respond       handleService: sc.SendResponseWithContext               *)
(*   ClientRet     the client goroutine gets its response                  *)
(*                                                                         *)
(* The property (C34) is stated as refinement: RegServer implements RegLin *)
(* (the register contract) under the mapping below -- Handle is the        *)
(* linearization point.  A deviation (Dev_AsyncCache: reads served from a  *)
(* per-connection cache that is refreshed asynchronously) breaks the       *)
(* refinement and produces non-linearizable histories, which the trace     *)
(* specification RegLinTrace must reject (checks/C34.py feeds the          *)
(* histories generated here into RegLinTrace).                             *)
(***************************************************************************)
EXTENDS Naturals, Sequences, FiniteSets, TLC, Json

CONSTANTS Clients,        \* set of naturals 1..N (value of write k of client c is c*100+k)
          Nodes,
          MaxOps,         \* operations per client
          Writers,        \* clients that may write
          Readers,        \* clients that may read
          Dev_AsyncCache, \* deviation: per-connection read cache, refreshed asynchronously
          Dev_LostWrite,  \* deviation: a write is acknowledged before it is applied (applied later, asynchronously)
          EmitHist        \* print complete histories as BEH rows

VARIABLES cl,      \* cl[c] = [phase, op, node, val, res, k]
          wire,    \* wire[c]: request bytes in the socket of c (sequence of requests)
          conn,    \* conn[c]: RegisterConn goroutine: [pc |-> "recv"] or [pc |-> "offer", msg]
          disp,    \* dispatcher goroutine: [pc |-> "read"|"handle"|"respond", c, msg, res]
          val,     \* val[n]: Node.val of node n
          cache,   \* cache[c][n]: deviation only
          late,    \* set of writes acknowledged but not yet applied (deviation only)
          resp,    \* resp[c]: response in flight to c: [full, res]
          hist     \* history of call/ret events (recorded only when EmitHist)

vars == <<cl, wire, conn, disp, val, cache, late, resp, hist>>

None == [full |-> FALSE, res |-> 0]
InitVal == 0
Value(c, k) == c * 100 + k

Init ==
    /\ cl = [c \in Clients |-> [phase |-> "idle", op |-> "r", node |-> "", val |-> 0, k |-> 0]]
    /\ wire = [c \in Clients |-> <<>>]
    /\ conn = [c \in Clients |-> [pc |-> "recv"]]
    /\ disp = [pc |-> "read"]
    /\ val = [n \in Nodes |-> InitVal]
    /\ cache = [c \in Clients |-> [n \in Nodes |-> InitVal]]
    /\ late = {}
    /\ resp = [c \in Clients |-> None]
    /\ hist = <<>>

ClientCall(c, op, n) ==
    /\ cl[c].phase = "idle" /\ cl[c].k < MaxOps
    /\ LET k == cl[c].k + 1
           v == IF op = "w" THEN Value(c, k) ELSE 0
       IN /\ cl' = [cl EXCEPT ![c] = [phase |-> "sent", op |-> op, node |-> n, val |-> v, k |-> k]]
          /\ wire' = [wire EXCEPT ![c] = Append(@, [c |-> c, op |-> op, node |-> n, val |-> v])]
          /\ hist' = IF EmitHist THEN Append(hist, [ev |-> "call", c |-> c, op |-> op, n |-> n, v |-> v]) ELSE hist
    /\ UNCHANGED <<conn, disp, val, cache, late, resp>>

ConnReceive(c) ==
    /\ conn[c].pc = "recv" /\ wire[c] # <<>>
    /\ conn' = [conn EXCEPT ![c] = [pc |-> "offer", msg |-> Head(wire[c])]]
    /\ wire' = [wire EXCEPT ![c] = Tail(@)]
    /\ UNCHANGED <<cl, disp, val, cache, late, resp, hist>>

DispatchTake(c) ==
    /\ disp.pc = "read" /\ conn[c].pc = "offer"
    /\ disp' = [pc |-> "handle", msg |-> conn[c].msg]
    /\ conn' = [conn EXCEPT ![c] = [pc |-> "recv"]]
    /\ UNCHANGED <<cl, wire, val, cache, late, resp, hist>>

Handle ==
    /\ disp.pc = "handle"
    /\ LET m == disp.msg IN
       IF m.op = "w"
       THEN /\ IF Dev_LostWrite
               THEN late' = late \cup {[node |-> m.node, val |-> m.val]} /\ UNCHANGED val
               ELSE val' = [val EXCEPT ![m.node] = m.val] /\ UNCHANGED late
            /\ disp' = [pc |-> "respond", msg |-> m, res |-> m.val]
       ELSE /\ disp' = [pc |-> "respond", msg |-> m,
                        res |-> IF Dev_AsyncCache THEN cache[m.c][m.node] ELSE val[m.node]]
            /\ UNCHANGED <<val, late>>
    /\ UNCHANGED <<cl, wire, conn, cache, resp, hist>>

Respond ==
    /\ disp.pc = "respond"
    /\ resp' = [resp EXCEPT ![disp.msg.c] = [full |-> TRUE, res |-> disp.res]]
    /\ disp' = [pc |-> "read"]
    /\ UNCHANGED <<cl, wire, conn, val, cache, late, hist>>

ClientRet(c) ==
    /\ cl[c].phase = "sent" /\ resp[c] # None
    /\ cl' = [cl EXCEPT ![c].phase = "idle"]
    /\ resp' = [resp EXCEPT ![c] = None]
    /\ hist' = IF EmitHist THEN Append(hist, [ev |-> "ret", c |-> c, v |-> resp[c].res]) ELSE hist
    /\ UNCHANGED <<wire, conn, disp, val, cache, late>>

\* deviations -----------------------------------------------------------------
CacheRefresh(c, n) ==
    /\ Dev_AsyncCache /\ cache[c][n] # val[n]
    /\ cache' = [cache EXCEPT ![c][n] = val[n]]
    /\ UNCHANGED <<cl, wire, conn, disp, val, late, resp, hist>>

ApplyLate(w) ==
    /\ Dev_LostWrite /\ w \in late
    /\ val' = [val EXCEPT ![w.node] = w.val]
    /\ late' = late \ {w}
    /\ UNCHANGED <<cl, wire, conn, disp, cache, resp, hist>>

Next ==
    \/ \E c \in Readers, n \in Nodes : ClientCall(c, "r", n)
    \/ \E c \in Writers, n \in Nodes : ClientCall(c, "w", n)
    \/ \E c \in Clients : ConnReceive(c) \/ DispatchTake(c) \/ ClientRet(c)
    \/ Handle \/ Respond
    \/ \E c \in Clients, n \in Nodes : CacheRefresh(c, n)
    \/ \E w \in late : ApplyLate(w)

Spec == Init /\ [][Next]_vars

-----------------------------------------------------------------------------
\* Refinement mapping to the register contract.

Handled(c) == \/ resp[c] # None
              \/ disp.pc = "respond" /\ disp.msg.c = c

AbsPhase(c) == IF cl[c].phase = "idle" THEN "idle"
               ELSE IF Handled(c) THEN "lin" ELSE "called"

AbsRes(c) == IF resp[c] # None THEN resp[c].res
             ELSE IF disp.pc = "respond" /\ disp.msg.c = c THEN disp.res ELSE 0

AbsSt == [c \in Clients |->
            IF cl[c].phase = "idle"
            THEN [phase |-> "idle", op |-> "r", node |-> "", val |-> 0, res |-> 0]
            ELSE [phase |-> AbsPhase(c), op |-> cl[c].op, node |-> cl[c].node, val |-> cl[c].val,
                  res |-> IF cl[c].op = "r" /\ Handled(c) THEN AbsRes(c) ELSE 0]]

R == INSTANCE RegLin WITH reg <- val, st <- AbsSt, InitVal <- 0,
                          Vals <- {Value(c, k) : c \in Clients, k \in 1..MaxOps}

\* RegServer implements the register contract: every step is a Call, Lin, Ret of RegLin or stutters.
Refines == R!RSpec

\* state invariants ------------------------------------------------------------
TypeOK ==
    /\ \A c \in Clients : cl[c].phase \in {"idle", "sent"} /\ cl[c].k \in 0..MaxOps
    /\ \A c \in Clients : Len(wire[c]) <= 1
    /\ disp.pc \in {"read", "handle", "respond"}

\* one outstanding request per client is in exactly one place
InvOnePlace == \A c \in Clients :
    cl[c].phase = "sent" =>
        Cardinality({p \in {"wire", "conn", "handle", "respond", "resp"} :
            \/ p = "wire" /\ wire[c] # <<>>
            \/ p = "conn" /\ conn[c].pc = "offer"
            \/ p = "handle" /\ disp.pc = "handle" /\ disp.msg.c = c
            \/ p = "respond" /\ disp.pc = "respond" /\ disp.msg.c = c
            \/ p = "resp" /\ resp[c] # None}) = 1

\* a read response carries the value the node had when the dispatcher handled it, and that
\* value is the initial value or some value written by a write already called
InvReadValue == \A c \in Clients :
    (cl[c].phase = "sent" /\ cl[c].op = "r" /\ resp[c] # None) =>
        \/ resp[c].res = InitVal
        \/ \E d \in Clients : \E k \in 1..cl[d].k : resp[c].res = Value(d, k)

\* what the dispatcher is about to send is what the node holds (only the dispatcher touches Node.val)
InvReadFresh == (disp.pc = "respond" /\ disp.msg.op = "r") => disp.res = val[disp.msg.node]
InvWriteApplied == (disp.pc = "respond" /\ disp.msg.op = "w") => val[disp.msg.node] = disp.msg.val

\* history emission -------------------------------------------------------------
Terminal == \A c \in Clients : cl[c].phase = "idle" /\ cl[c].k = MaxOps
InvEmit == (EmitHist /\ Terminal) => PrintT("BEH " \o ToJson(hist))
=============================================================================
