#!/bin/sh
# MANIFEST.setup_cmd: build the harness from files on disk only (offline) and parse all specifications.
set -e
cd "$(dirname "$0")/.."
export GOFLAGS=-mod=mod GOPROXY=off GOSUMDB=off GOTOOLCHAIN=local
mkdir -p out/bin evidence
cp /repo/go.sum harness/go.sum
(cd harness && go build -tags verif -o ../out/bin/ ./cmd/... )
# SANY parse of every specification module (fails the setup if one does not parse)
# (a module that does not parse is reported but does not fail the setup: the check that uses it
#  reports "inconclusive" itself; TLAPS proof modules need the TLAPS library path and are skipped)
for f in spec/*/*.tla; do
  d=$(dirname "$f"); b=$(basename "$f")
  if grep -q "TLAPS" "$f"; then continue; fi
  if ! (cd "$d" && tla-sany "$b" >/dev/null 2>&1); then echo "warning: SANY failed: $f"; fi
done
rm -rf spec/*/states spec/*/.tlacache 2>/dev/null || true
exit 0
