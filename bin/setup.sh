#!/bin/sh
# MANIFEST.setup_cmd: build the harness from files on disk only (offline) and parse all specifications.
set -e
cd "$(dirname "$0")/.."
export GOFLAGS=-mod=mod GOPROXY=off GOSUMDB=off GOTOOLCHAIN=local
mkdir -p out/bin evidence
cp /repo/go.sum harness/go.sum
(cd harness && go build -tags verif -o ../out/bin/ ./cmd/... )
# SANY parse of every specification module (fails the setup if one does not parse)
fail=0
for f in spec/*/*.tla; do
  d=$(dirname "$f"); b=$(basename "$f")
  if ! (cd "$d" && tla-sany "$b" >/dev/null 2>&1); then echo "SANY failed: $f"; fail=1; fi
done
rm -rf spec/*/states spec/*/.tlacache 2>/dev/null || true
exit $fail
