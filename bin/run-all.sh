#!/bin/sh
# usage: bin/run-all.sh [tier] [seed...]   -- runs every registered check, prints one line per run
cd "$(dirname "$0")/.." || exit 2
tier="${1:-quick}"; shift
seeds="${*:-1}"
mkdir -p out/runall
for f in checks/C*.meta.json; do
  id=$(basename "$f" .meta.json)
  [ -f "checks/$id.py" ] || continue
  for s in $seeds; do
    t0=$(date +%s)
    VERIF_SEED=$s bin/check "$id" --tier "$tier" > "out/runall/$id-$tier-$s.log" 2>&1; rc=$?
    t1=$(date +%s)
    echo "$id tier=$tier seed=$s exit=$rc wall=$((t1-t0))s $(grep -c '^KNOWN-FINDING' out/runall/$id-$tier-$s.log) known $(grep -c '^VIOLATION' out/runall/$id-$tier-$s.log) viol"
  done
done
