#!/usr/bin/env python3
# usage: bin/seed-matrix.py [-j N] [--tier quick] [names...]
# For every kept seeded change (seeded/<ID>-<m>/patch.diff) run the check of its property against a
# scratch worktree of /repo with the change applied (bin/try-seed.sh) and record the outcome in
# seeded/<name>/detect.json: exit code, VIOLATION keys, head commit.  A change that no longer
# applies to the current head is recorded as such.
import concurrent.futures as cf, json, os, re, subprocess, sys, time
V = os.path.dirname(os.path.dirname(os.path.abspath(__file__)))
args = sys.argv[1:]
jobs, tier, names = 3, "quick", []
i = 0
while i < len(args):
    if args[i] == "-j": jobs = int(args[i+1]); i += 2
    elif args[i] == "--tier": tier = args[i+1]; i += 2
    else: names.append(args[i]); i += 1
if not names:
    names = sorted(os.listdir(os.path.join(V, "seeded")))
head = subprocess.run("git -C /repo rev-parse --short HEAD", shell=True, stdout=subprocess.PIPE, text=True).stdout.strip()
RELATED = {"C09": ["C13"], "C13": ["C12", "C09"], "C11": ["C16", "C19"], "C16": ["C11", "C19"], "C02": ["C13", "C03"],
           "C19": ["C18"], "C18": ["C19", "C20"], "C20": ["C18"], "C05": ["C06"], "C06": ["C38", "C07", "C13"],
           "C25": ["C26", "C27"], "C26": ["C25", "C27"], "C27": ["C26", "C25"], "C28": ["C34", "C29"], "C34": ["C31", "C28"],
           "C29": ["C28", "C32"], "C31": ["C34"], "C32": ["C29", "C35"], "C35": ["C32"], "C08": ["C07", "C37"],
           "C07": ["C08", "C12"], "C12": ["C13"], "C17": ["C16"], "C22": ["C37"], "C30": ["C37"], "C33": ["C29"]}


def one(name):
    d = os.path.join(V, "seeded", name)
    pid = name.split("-")[0]
    patch = os.path.join(d, "patch.diff")
    if not os.path.exists(patch) or not os.path.exists(os.path.join(V, "checks", pid + ".py")):
        return name, None
    t0 = time.time()
    p = subprocess.run([os.path.join(V, "bin", "try-seed.sh"), patch, pid, tier], stdout=subprocess.PIPE, stderr=subprocess.STDOUT, text=True)
    out = p.stdout
    res = {"property": pid, "tier": tier, "head": head, "exit": p.returncode, "wall_s": round(time.time() - t0),
           "violation_keys": re.findall(r"^  key=(\S+)", out, re.M),
           "known_finding_keys": re.findall(r"^KNOWN-FINDING: property=\S+ key=(\S+)", out, re.M)}
    if "patch does not apply" in out:
        res["status"] = "patch-does-not-apply-to-head"
    elif p.returncode == 1 and res["violation_keys"]:
        res["status"] = "detected"
    elif p.returncode == 0:
        res["status"] = "missed"
    else:
        res["status"] = "inconclusive"
        res["tail"] = out[-800:]
    if res["status"] == "missed":
        # the change may violate a neighbouring property's statement too: try the related checks
        for other in RELATED.get(pid, []):
            q = subprocess.run([os.path.join(V, "bin", "try-seed.sh"), patch, other, tier], stdout=subprocess.PIPE, stderr=subprocess.STDOUT, text=True)
            keys = re.findall(r"^  key=(\S+)", q.stdout, re.M)
            if q.returncode == 1 and keys:
                res["status"] = "missed-by-own-check-detected-by-" + other
                res["detected_by"] = other
                res["violation_keys"] = keys
                break
    json.dump(res, open(os.path.join(d, "detect.json"), "w"), indent=1)
    return name, res
with cf.ThreadPoolExecutor(max_workers=jobs) as ex:
    for name, res in ex.map(one, names):
        if res:
            print("%-10s %-28s exit=%s %3ss keys=%s" % (name, res["status"], res["exit"], res["wall_s"], ",".join(res["violation_keys"])[:150]), flush=True)
