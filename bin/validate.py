#!/usr/bin/env python3
# validates MANIFEST.json and evidence/*.json against the schemas (uses the tooling venv's jsonschema)
import json, glob, sys
import jsonschema
ok = True
def v(path, schema):
    global ok
    try:
        jsonschema.validate(json.load(open(path)), json.load(open(schema)))
    except Exception as e:
        ok = False
        print("INVALID", path, str(e)[:300])
v("/verif/MANIFEST.json", "/root/.vp/MANIFEST.schema.json")
for f in sorted(glob.glob("/verif/evidence/*.json")):
    v(f, "/root/.vp/EVIDENCE.schema.json")
print("all valid" if ok else "errors")
sys.exit(0 if ok else 1)
