#!/usr/bin/env python3
# usage: bin/confirm-seed.py /tmp/seed-out/<ID>/<m>  [--keep-name NAME]
# Confirms an independently written breaking change in a scratch worktree of /repo:
#   (1) patch applies and the tree builds, (2) the existing suite still passes (only the known
#   offline failure uacp TestResolveEndpoint), (3) the demonstration fails with the change,
#   (4) and passes without it.  On success the change is kept as /verif/seeded/<ID>-<m>/.
import json, os, re, shutil, subprocess, sys, time
src = os.path.abspath(sys.argv[1])
pid = os.path.basename(os.path.dirname(src)); mname = os.path.basename(src)
name = "%s-%s" % (pid, mname)
meta = json.load(open(os.path.join(src, "meta.json")))
env = dict(os.environ, GOFLAGS="-mod=mod", GOPROXY="off", GOSUMDB="off", GOTOOLCHAIN="local")
wt = "/tmp/confirm/" + name
os.makedirs("/tmp/confirm", exist_ok=True)
def sh(cmd, cwd=wt, timeout=1500):
    p = subprocess.run(cmd, shell=True, cwd=cwd, env=env, stdout=subprocess.PIPE, stderr=subprocess.STDOUT, text=True, timeout=timeout)
    return p.returncode, p.stdout
subprocess.run("git -C /repo worktree remove --force %s 2>/dev/null; git -C /repo worktree add --detach %s HEAD" % (wt, wt), shell=True, stdout=subprocess.DEVNULL, stderr=subprocess.DEVNULL)
res = {"name": name, "base_commit": subprocess.run("git -C /repo rev-parse HEAD", shell=True, stdout=subprocess.PIPE, text=True).stdout.strip()}
try:
    rc, out = sh("git apply --3way %s || git apply %s" % (os.path.join(src, "patch.diff"), os.path.join(src, "patch.diff")))
    res["applies"] = rc == 0
    if rc != 0:
        res["error"] = out[-500:]; raise SystemExit
    rc, out = sh("go build ./... && go build -tags verif ./...")
    res["builds"] = rc == 0
    if rc != 0:
        res["error"] = out[-800:]; raise SystemExit
    fails = None
    for attempt in range(2):
        rc, out = sh("go test -vet=off -count=1 -timeout 20m ./... 2>&1")
        fails = sorted(set(re.findall(r"^--- FAIL: (\S+)", out, re.M)))
        pk = sorted(set(re.findall(r"^FAIL\s+(github\S+)", out, re.M)))
        res["suite_failed_tests"] = fails; res["suite_failed_pkgs"] = pk
        if fails == ["TestResolveEndpoint"] and pk == ["github.com/gopcua/opcua/uacp"]:
            break
    res["suite_ok"] = (fails == ["TestResolveEndpoint"] and pk == ["github.com/gopcua/opcua/uacp"])
    if not res["suite_ok"]:
        res["error"] = out[-1500:]; raise SystemExit
    # demonstration
    demo = meta.get("demo", "")
    demos = [f for f in os.listdir(src) if f.endswith("_test.go")]
    m = re.search(r"cp\s+\S*?([\w.-]+_test\.go)\s+(\S+)", demo)
    run = re.search(r"-run[= ]+'?\"?([^\s'\"]+)", demo)
    if demos and m and run:
        dst = m.group(2).rstrip(";,)").lstrip("./")
        if dst.endswith("/") or os.path.isdir(os.path.join(wt, dst)):
            dst = os.path.join(dst, "zz_seed_demo_test.go")
        pkg = "./" + os.path.dirname(dst) if os.path.dirname(dst) else "."
        shutil.copy(os.path.join(src, m.group(1)), os.path.join(wt, dst))
        cmd = "go test -vet=off -count=1 -timeout 300s -run '%s' %s" % (run.group(1), pkg)
    elif os.path.isdir(os.path.join(src, "demo")):
        shutil.copytree(os.path.join(src, "demo"), os.path.join(wt, "zz_seed_demo"))
        cmd = "go run ./zz_seed_demo"
    else:
        res["error"] = "cannot derive demo command from meta.demo: " + demo[:300]; raise SystemExit
    if pid == "C36":
        cmd = cmd.replace("go test ", "go test -race ").replace("-timeout 300s", "-timeout 600s")
    res["demo_cmd"] = cmd
    rc1, out1 = sh(cmd)
    res["demo_fails_with_change"] = rc1 != 0 and "[build failed]" not in out1 and "[setup failed]" not in out1
    res["demo_out_with"] = out1[-600:]
    sh("git reset -q --hard HEAD")   # undo the change (the untracked demo file stays)
    rc2, out2 = sh(cmd)
    res["demo_passes_without_change"] = rc2 == 0
    res["demo_out_without"] = out2[-300:]
    res["confirmed"] = bool(res["demo_fails_with_change"] and res["demo_passes_without_change"])
except SystemExit:
    res.setdefault("confirmed", False)
finally:
    subprocess.run("git -C /repo worktree remove --force %s; git -C /repo worktree prune" % wt, shell=True, stdout=subprocess.DEVNULL, stderr=subprocess.DEVNULL)
    shutil.rmtree(wt, ignore_errors=True)
res.setdefault("confirmed", False)
if res["confirmed"]:
    dst = "/verif/seeded/" + name
    os.makedirs(dst, exist_ok=True)
    for f in os.listdir(src):
        p = os.path.join(src, f)
        if os.path.isfile(p) and f != "meta.json":
            shutil.copy(p, dst)
        elif os.path.isdir(p):
            shutil.copytree(p, os.path.join(dst, f), dirs_exist_ok=True)
    meta["property"] = pid
    meta["confirmed_by_me"] = {k: res[k] for k in ("base_commit", "applies", "builds", "suite_ok", "suite_failed_tests", "demo_cmd", "demo_fails_with_change", "demo_passes_without_change")}
    meta["confirmed_by_me"]["what_i_ran"] = "scratch worktree of /repo: git apply patch; go build ./... (and -tags verif); go test -vet=off -count=1 ./... (only uacp TestResolveEndpoint fails, as at baseline); demo run with the change (fails) and after git apply -R (passes)"
    json.dump(meta, open(os.path.join(dst, "meta.json"), "w"), indent=1)
print(json.dumps({k: v for k, v in res.items() if not k.startswith("demo_out") or not res["confirmed"]}, indent=1))
sys.exit(0 if res["confirmed"] else 1)
