#!/bin/sh
# usage: bin/try-seed.sh <patch.diff> <ID> [tier]
# Runs the check for <ID> against a scratch worktree of /repo with the patch applied (VERIF_REPO),
# so that /repo itself and concurrent runs are not disturbed.  Evidence is not rewritten.
patch="$(readlink -f "$1")"; id="$2"; tier="${3:-quick}"
wt="/tmp/tryseed/$id-$$"
mkdir -p /tmp/tryseed
git -C /repo worktree add --detach "$wt" HEAD >/dev/null 2>&1 || exit 2
( cd "$wt" && (git apply --3way "$patch" 2>/dev/null || git apply "$patch") ) || { echo "patch does not apply"; git -C /repo worktree remove --force "$wt"; exit 2; }
( cd /verif && VERIF_REPO="$wt" VERIF_NO_EVIDENCE=1 bin/check "$id" --tier "$tier" ); rc=$?
git -C /repo worktree remove --force "$wt"; git -C /repo worktree prune

echo "try-seed: $id $patch -> exit $rc"
exit $rc
