#!/bin/sh
# usage: bin/try-seed.sh <patch.diff> <ID> [tier]   -- apply a seeded change to /repo, run the check, undo.
patch="$1"; id="$2"; tier="${3:-quick}"
cd /repo || exit 2
if [ -n "$(git status --porcelain --untracked-files=no)" ]; then echo "/repo not clean"; exit 2; fi
git apply "$patch" || { echo "patch does not apply"; exit 2; }
( cd /verif && VERIF_NO_EVIDENCE=1 bin/check "$id" --tier "$tier" ); rc=$?
git -C /repo checkout -- . ; git -C /repo clean -fdq -- . 2>/dev/null
echo "try-seed: $id $patch -> exit $rc"
exit $rc
