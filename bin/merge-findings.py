#!/usr/bin/env python3
# Merges the per-family fragments findings/*.txt into known-findings.txt (grouped by property,
# open entries first) and removes the fragments.  known-findings.txt is the one committed file
# the checks read (lib/vf.py Run.known); it is never written at run time.
import glob, os, re
V = os.path.dirname(os.path.dirname(os.path.abspath(__file__)))
lines = []
for f in [os.path.join(V, "known-findings.txt")] + sorted(glob.glob(os.path.join(V, "findings", "*.txt"))):
    if os.path.exists(f):
        lines += [l.strip() for l in open(f) if re.match(r"(open|fixed):", l.strip())]
seen, ent = set(), []
for l in lines:
    m = re.match(r"(open|fixed):\s+property=(\S+)\s+(.*)", l)
    kind, prop, rest = m.groups()
    km = re.search(r"key=(\S+)", rest)
    k = (kind, prop, km.group(1) if km else rest)
    if k in seen:
        continue
    seen.add(k)
    ent.append((prop, 0 if kind == "open" else 1, "%-6s property=%s %s" % (kind + ":", prop, re.sub(r"\s+", " ", rest))))
# an entry that is both open and fixed: the fixed one wins (the repair was committed later)
fixedkeys = {(p, k) for (kind, p, k) in seen if kind == "fixed"}
out = ["# Known findings: genuine defects of gopcua/opcua at the pinned commit that are recorded",
       "# instead of repaired (open:), and defects that were repaired with a fix: commit in /repo",
       "# (fixed: lines suppress nothing; a check reports the violation again if it ever returns).",
       "# Format, one entry per line, never written at run time:",
       "#   open:  property=<id> key=<key> [flag=<Dev_flag>] <what fails>",
       "#   fixed: property=<id> commit=<sha> key=<key> <what failed>", ""]
cur = None
for prop, order, text in sorted(ent):
    m = re.match(r"open:\s+property=(\S+)\s+.*?key=(\S+)", text)
    if m and (m.group(1), m.group(2)) in fixedkeys:
        continue
    if prop != cur:
        out.append("# ---- %s" % prop); cur = prop
    out.append(text)
open(os.path.join(V, "known-findings.txt"), "w").write("\n".join(out) + "\n")
for f in glob.glob(os.path.join(V, "findings", "*.txt")):
    os.remove(f)
print("known-findings.txt: %d entries (%d open)" % (len(ent), sum(1 for e in ent if e[1] == 0)))
