#!/usr/bin/env python3
# Regenerates MANIFEST.json from checks/<ID>.meta.json (one file per claimed property) and
# checks/not_applicable.json.  Every property of properties.jsonl is either claimed or listed
# under not_applicable.
import json, os, subprocess, sys
V = os.path.dirname(os.path.dirname(os.path.abspath(__file__)))
props = [json.loads(l)["id"] for l in open(os.path.join(V, "properties.jsonl")) if l.strip()]
checks, na = [], []
nafile = os.path.join(V, "checks", "not_applicable.json")
declared_na = json.load(open(nafile)) if os.path.exists(nafile) else {}
for pid in props:
    mp = os.path.join(V, "checks", pid + ".meta.json")
    if os.path.exists(mp) and os.path.exists(os.path.join(V, "checks", pid + ".py")):
        m = json.load(open(mp))
        c = {
            "property_id": pid,
            "quick_cmd": "bin/check %s --tier quick" % pid,
            "thorough_cmd": "bin/check %s --tier thorough" % pid,
            "evidence_file": "/verif/evidence/%s.json" % pid,
            "replay_cmd_template": "bin/check %s --replay {path}" % pid,
            "engine": m.get("engine", "tlc+go-harness"),
            "level_claimed": {"category": m["level"], "text": m["text"], "design_ref": m.get("design_ref", "DESIGN.md §4 " + pid)},
            "level_note": m["note"],
            "technique": m["technique"],
        }
        checks.append(c)
    else:
        na.append({"property_id": pid, "reason": declared_na.get(pid, "no check built yet for this property (work in progress); see DESIGN.md")})
try:
    commits = subprocess.run(["git", "-C", "/repo", "log", "--format=%H", "--grep=^verif:"], stdout=subprocess.PIPE, text=True).stdout.split()
except Exception:
    commits = []
man = {
    "version": 1,
    "setup_cmd": "bin/setup.sh",
    "hooks": {
        "guard": "verif (Go build tag)",
        "enable": "go build -tags verif (harness module /verif/harness with replace github.com/gopcua/opcua => /repo)",
        "baseline_off_cmd": "cd /repo && GOFLAGS=-mod=mod GOPROXY=off GOSUMDB=off go test -vet=off -count=1 -timeout 25m ./...",
        "source_commits": commits,
        "add_only": True,
    },
    "engines": [
        {"name": "tlc+go-harness", "path": "lib/vf.py, spec/, harness/",
         "serves_properties": [c["property_id"] for c in checks],
         "kind_free_text": "explicit TLA+ specifications checked with TLC; TLC-generated rows/behaviours replayed on the real Go packages and traces recorded from the real code validated against the specification"}
    ],
    "checks": checks,
    "not_applicable": na,
    "notes": "See DESIGN.md. known-findings.txt lists genuine defects recorded instead of repaired; seeded/ holds independently written breaking changes used to test the machinery.",
}
json.dump(man, open(os.path.join(V, "MANIFEST.json"), "w"), indent=1)
print("MANIFEST.json: %d checks, %d not_applicable" % (len(checks), len(na)))
