# Shared machinery for the per-property checks (python3, standard library only).
#
#   Run            one check run: tier/seed, scratch dir, TLC calls, Go harness calls,
#                  verdict (VIOLATION / KNOWN-FINDING lines, exit code) and evidence file.
#   Run.tlc()      run TLC on a module+cfg from /verif/spec/<family> in a scratch copy;
#                  parses state counts, violated invariant, emitted rows ("ROW "/"BEH " lines).
#   Run.go_build() build a command of the harness module against /repo's working tree (-tags verif).
#   Run.go_run()   run a harness binary with a cases file, collect ndjson results.
#
# Exit codes: 0 property held on everything explored (KNOWN-FINDING lines allowed),
#             1 at least one violation that known-findings.txt does not list,
#             2 machinery problem (never a verdict).
import atexit
import json
import os
import re
import shutil
import subprocess
import sys
import tempfile
import time

VERIF = os.path.dirname(os.path.dirname(os.path.abspath(__file__)))
REPO = os.environ.get("VERIF_REPO", "/repo")
HARNESS = os.path.join(VERIF, "harness")
OUT = os.path.join(VERIF, "out")
NCPU = os.cpu_count() or 4

GOENV = {
    "GOFLAGS": "-mod=mod",
    "GOPROXY": "off",
    "GOSUMDB": "off",
    "GOTOOLCHAIN": "local",
}


def goenv():
    e = dict(os.environ)
    e.update(GOENV)
    return e


class Inconclusive(Exception):
    pass


class TlcResult:
    def __init__(self):
        self.ok = False            # finished without error
        self.generated = 0
        self.distinct = 0
        self.depth = 0
        self.violated = None       # name of violated invariant / property, or "deadlock"
        self.rows = []             # parsed JSON of every "ROW "/"BEH " line
        self.out = ""
        self.wall = 0.0
        self.coverage_zero = []    # actions/lines with zero coverage (when coverage requested)
        self.postcondition_failed = False
        self.error = None


class Run:
    def __init__(self, prop, level="model_checking", design_ref=None):
        self.design_ref = design_ref
        self.prop = prop
        self.level = level
        self.t0 = time.time()
        args = sys.argv[1:]
        self.tier = os.environ.get("VERIF_TIER", "quick")
        self.replay = None
        i = 0
        while i < len(args):
            if args[i] == "--tier":
                self.tier = args[i + 1]; i += 2
            elif args[i] == "--replay":
                self.replay = args[i + 1]; i += 2
            else:
                i += 1
        if self.tier not in ("quick", "thorough"):
            self.tier = "quick"
        try:
            self.seed = int(os.environ.get("VERIF_SEED", "1"))
        except ValueError:
            self.seed = 1
        self.scratch = tempfile.mkdtemp(prefix="vf-%s-" % prop)
        atexit.register(lambda: shutil.rmtree(self.scratch, ignore_errors=True))
        self.cov = {
            "states": 0, "transitions": 0, "traces_validated_against_impl": 0,
            "evaluations": 0, "distinct_nontrivial": 0, "rule": "", "samples": [],
            "tlc_runs": [],
        }
        self.assumptions = []
        self.violations = []   # dicts: key, detail, case
        self.inconclusive = []
        self.classes = set()
        self.notes = []
        os.makedirs(os.path.join(OUT, "bin"), exist_ok=True)
        os.makedirs(os.path.join(VERIF, "evidence"), exist_ok=True)

    # ------------------------------------------------------------------ helpers
    def quick(self):
        return self.tier == "quick"

    def pick(self, q, t):
        return q if self.tier == "quick" else t

    def log(self, *a):
        print("[%s %6.1fs]" % (self.prop, time.time() - self.t0), *a, flush=True)

    def tmp(self, name):
        return os.path.join(self.scratch, name)

    # ------------------------------------------------------------------ TLC
    def tlc(self, family, module, cfg, mode="check", workers=None, files=None,
            timeout=900, deque=False, coverage=False, simulate=None, depth=None,
            expect=None, constants=None, count=True, label=None, xss=False):
        """Run TLC on spec/<family>/<module>.tla with <cfg> in a scratch copy.

        mode: check  exhaustive model check (properties in cfg)
              gen    exhaustive / simulated run that prints rows (workers forced to 1)
              trace  trace validation (workers 1, POSTCONDITION in cfg)
        files: {name: text} extra files written next to the spec (trace logs, generated MC modules)
        expect: None -> must finish with no error; "violation" -> must report a violated
                invariant/property (deviation demo); anything else is a machinery error.
        """
        src = os.path.join(VERIF, "spec", family)
        d = tempfile.mkdtemp(prefix="tlc-", dir=self.scratch)
        for f in os.listdir(src):
            p = os.path.join(src, f)
            if os.path.isfile(p):
                shutil.copy(p, d)
        for name, text in (files or {}).items():
            with open(os.path.join(d, name), "w") as fh:
                fh.write(text)
        if workers is None:
            workers = 1 if mode in ("gen", "trace") else min(NCPU, 8)
        cmd = ["tlc", "-workers", str(workers), "-metadir", os.path.join(d, "md"),
               "-config", cfg]
        if coverage:
            cmd += ["-coverage", "1"]
        cmd += ["-seed", str(self.seed)]
        if simulate:
            cmd += ["-simulate", "num=%d" % simulate]
        if depth:
            cmd += ["-depth", str(depth)]
        cmd.append(module + ".tla")
        env = dict(os.environ)
        jopts = []
        if deque:
            jopts.append("-Dtlc2.tool.queue.IStateQueue=StateDeque")
        if xss:
            jopts.append("-Xss512m")
        if jopts:
            env["JAVA_TOOL_OPTIONS"] = " ".join(jopts)
        t0 = time.time()
        try:
            p = subprocess.run(cmd, cwd=d, env=env, stdout=subprocess.PIPE,
                               stderr=subprocess.STDOUT, timeout=timeout, text=True,
                               errors="replace")
            out = p.stdout
            rc = p.returncode
        except subprocess.TimeoutExpired as e:
            out = (e.stdout or b"").decode("utf-8", "replace") if isinstance(e.stdout, bytes) else (e.stdout or "")
            subprocess.run(["pkill", "-f", d], check=False)
            raise Inconclusive("TLC timeout after %ds on %s/%s %s" % (timeout, family, module, cfg))
        r = TlcResult()
        r.out = out
        r.wall = time.time() - t0
        for line in out.splitlines():
            if line.startswith('"ROW ') or line.startswith('"BEH '):
                try:
                    s = json.loads(line)
                    r.rows.append(json.loads(s[4:]))
                except Exception as ex:  # pragma: no cover
                    raise Inconclusive("unparsable row from TLC: %s (%s)" % (line[:200], ex))
        m = None
        for m in re.finditer(r"(\d+) states generated, (\d+) distinct states found", out):
            pass
        if m:
            r.generated, r.distinct = int(m.group(1)), int(m.group(2))
        m = re.search(r"depth of the complete state graph search is (\d+)", out)
        if m:
            r.depth = int(m.group(1))
        m = re.search(r"Error: Invariant (\S+) is violated", out)
        if m:
            r.violated = m.group(1)
        m2 = re.search(r"Error: Action property (\S+) is violated", out) or \
            re.search(r"Action property (line \d+[^\n]*?) is violated", out)
        if m2:
            r.violated = m2.group(1)
        if "Temporal properties were violated" in out or re.search(r"Temporal propert\w+ .*violated", out):
            r.violated = r.violated or "temporal"
        if "Deadlock reached" in out:
            r.violated = r.violated or "deadlock"
        if re.search(r"(Postcondition|POSTCONDITION)[^\n]*(violated|false)", out, re.I) and not r.violated:
            r.postcondition_failed = True
        if "Evaluating assumption" in out and "is false" in out or re.search(r"Assumption .* is false", out):
            r.violated = r.violated or "assumption"
        finished = ("Model checking completed. No error has been found." in out) or \
                   (simulate is not None and rc == 0)
        r.ok = finished and not r.violated and not r.postcondition_failed
        if not r.ok and not r.violated and not r.postcondition_failed:
            em = re.search(r"Error: (.*)", out)
            r.error = em.group(1) if em else "tlc exit %d" % rc
        if coverage:
            for line in out.splitlines():
                mm = re.match(r"<(\w+) line (\d+), col \d+ .*>: (\d+):(\d+)", line.strip())
                if mm and int(mm.group(3)) == 0 and int(mm.group(4)) == 0:
                    r.coverage_zero.append(mm.group(1))
        if count:
            self.cov["states"] += r.distinct
            self.cov["transitions"] += r.generated
        self.cov["tlc_runs"].append({
            "spec": "%s/%s.tla" % (family, module), "cfg": cfg, "mode": mode,
            "label": label or "", "generated": r.generated, "distinct": r.distinct,
            "depth": r.depth, "rows": len(r.rows), "violated": r.violated,
            "ok": r.ok, "wall_s": round(r.wall, 2)})
        if expect is None:
            if not r.ok and mode != "trace":
                self.save_text("tlc-%s-%s.out" % (module, cfg), out)
                raise Inconclusive("TLC did not verify %s/%s %s: %s" % (
                    family, module, cfg, r.violated or r.error))
        elif expect == "violation":
            if not r.violated:
                self.save_text("tlc-%s-%s.out" % (module, cfg), out)
                raise Inconclusive("deviation demo %s/%s %s found no violation (vacuous property?)" % (family, module, cfg))
        return r

    def parallel(self, *thunks):
        """Run callables concurrently (TLC runs, harness builds); re-raise the first failure."""
        import concurrent.futures as cf
        with cf.ThreadPoolExecutor(max_workers=len(thunks)) as ex:
            futs = [ex.submit(t) for t in thunks]
            return [f.result() for f in futs]

    def save_text(self, name, text):
        d = os.path.join(OUT, "log", self.prop)
        os.makedirs(d, exist_ok=True)
        p = os.path.join(d, name)
        with open(p, "w") as fh:
            fh.write(text)
        return p

    # ------------------------------------------------------------------ Go harness
    def go_build(self, cmdname, race=False, tags="verif"):
        """Build harness/cmd/<cmdname> against the repository under test (VERIF_REPO, default /repo).
        For a non-default repository a private go.mod (replace => that tree) is used via -modfile,
        so concurrent runs against scratch worktrees do not disturb each other."""
        race = race or bool(os.environ.get("VERIF_RACE"))
        suffix = ("-race" if race else "")
        modargs = []
        if os.path.realpath(REPO) != "/repo":
            import hashlib
            h = hashlib.sha1(os.path.realpath(REPO).encode()).hexdigest()[:8]
            suffix += "-" + h
            md = os.path.join(OUT, "mod-" + h)
            os.makedirs(md, exist_ok=True)
            gm = open(os.path.join(HARNESS, "go.mod")).read().replace("=> /repo", "=> " + os.path.realpath(REPO))
            with open(os.path.join(md, "go.mod"), "w") as fh:
                fh.write(gm)
            shutil.copy(os.path.join(REPO, "go.sum"), os.path.join(md, "go.sum"))
            modargs = ["-modfile=" + os.path.join(md, "go.mod")]
        else:
            gosum = os.path.join(REPO, "go.sum")
            if os.path.exists(gosum):
                shutil.copy(gosum, os.path.join(HARNESS, "go.sum"))
        out = os.path.join(OUT, "bin", cmdname + suffix)
        cmd = ["go", "build", "-tags", tags] + modargs + ["-o", out]
        if race:
            cmd.append("-race")
        cmd.append("./cmd/" + cmdname)
        p = subprocess.run(cmd, cwd=HARNESS, env=goenv(), stdout=subprocess.PIPE,
                           stderr=subprocess.STDOUT, text=True)
        if p.returncode != 0:
            self.save_text("gobuild-%s.out" % cmdname, p.stdout)
            raise Inconclusive("go build %s failed:\n%s" % (cmdname, p.stdout[-3000:]))
        return out

    def go_run(self, binary, args, cases=None, timeout=1200, env=None, stdin=None):
        """Run a harness binary. `cases` (list of JSON values) is written as ndjson to a file
        passed as -cases; results are read from the file passed as -out (ndjson)."""
        cf = tempfile.mktemp(prefix="cases-", suffix=".ndjson", dir=self.scratch)
        of = tempfile.mktemp(prefix="res-", suffix=".ndjson", dir=self.scratch)
        if cases is not None:
            with open(cf, "w") as fh:
                for c in cases:
                    fh.write(json.dumps(c) + "\n")
        cmd = [binary] + list(args) + ["-out", of, "-seed", str(self.seed)]
        if cases is not None:
            cmd += ["-cases", cf]
        e = goenv()
        e["VERIF_SEED"] = str(self.seed)
        e["VERIF_TIER"] = self.tier
        e["VERIF_SCRATCH"] = self.scratch
        if os.environ.get("VERIF_RACE_DIR"):
            # C36: every process of the workload (children included) writes its race reports here
            e["GORACE"] = "log_path=%s/race halt_on_error=0 history_size=4" % os.environ["VERIF_RACE_DIR"]
        if env:
            e.update(env)
        try:
            p = subprocess.run(cmd, cwd=self.scratch, env=e, stdout=subprocess.PIPE,
                               stderr=subprocess.STDOUT, timeout=timeout, text=True,
                               errors="replace")
        except subprocess.TimeoutExpired as ex:
            raise Inconclusive("harness %s timed out after %ds" % (os.path.basename(binary), timeout))
        res = []
        if os.path.exists(of):
            with open(of) as fh:
                for line in fh:
                    line = line.strip()
                    if line:
                        try:
                            res.append(json.loads(line))
                        except ValueError:
                            pass
        if p.returncode != 0:
            self.save_text("harness-%s.out" % os.path.basename(binary), p.stdout[-200000:])
            raise Inconclusive("harness %s exited %d: %s" % (os.path.basename(binary), p.returncode, p.stdout[-2000:]))
        self.last_harness_output = p.stdout
        return res

    def absorb(self, results, sample_n=3):
        """Fold harness results ({case,status,key,detail,class,nontrivial,...}) into the run."""
        for r in results:
            st = r.get("status")
            self.cov["evaluations"] += 1
            if r.get("nontrivial", True) and r.get("class"):
                self.classes.add(r["class"])
            if st == "violation":
                self.violations.append({"key": r.get("key") or "unclassified",
                                        "detail": r.get("detail", ""), "case": r.get("case")})
            elif st == "inconclusive":
                self.inconclusive.append(r)
        oks = [r for r in results if r.get("status") == "ok"]
        if oks:
            n = len(oks)
            for i in sorted({(n * (2 * j + 1)) // (2 * sample_n) for j in range(sample_n)}):
                if len(self.cov["samples"]) < 12:
                    self.cov["samples"].append({k: oks[i][k] for k in ("case", "class", "obs") if k in oks[i]})

    def violation(self, key, detail, case=None):
        self.violations.append({"key": key, "detail": detail, "case": case})

    # ------------------------------------------------------------------ known findings
    def known(self):
        res = {}
        fixed = {}
        import glob
        lines = []
        for p in [os.path.join(VERIF, "known-findings.txt")] + sorted(glob.glob(os.path.join(VERIF, "findings", "*.txt"))):
            if os.path.exists(p):
                lines += open(p).read().splitlines()
        for line in lines:
            line = line.strip()
            if not line or line.startswith("#"):
                continue
            m = re.match(r"(open|fixed):\s+property=(\S+)\s+(.*)", line)
            if not m:
                continue
            kind, prop, rest = m.groups()
            if prop != self.prop:
                continue
            km = re.search(r"key=(\S+)", rest)
            key = km.group(1) if km else None
            text = re.sub(r"(key|flag|commit)=\S+\s*", "", rest).strip()
            if kind == "open" and key:
                res[key] = text
            elif kind == "fixed":
                fixed[key] = text
        return res, fixed

    # ------------------------------------------------------------------ verdict
    def finish(self, explanation=None, exhaustive=None, trusted=None, inconclusive_ok=0.34):
        known, _ = self.known()
        wall = time.time() - self.t0
        self.cov["distinct_nontrivial"] = max(self.cov["distinct_nontrivial"], len(self.classes))
        if explanation:
            self.cov["explanation"] = explanation
        if exhaustive is not None:
            self.cov["exhaustive"] = bool(exhaustive)
        if trusted:
            self.cov["trusted_base"] = trusted
        if self.notes:
            self.cov["notes"] = self.notes
        bykey = {}
        for v in self.violations:
            bykey.setdefault(v["key"], []).append(v)
        new = {k: v for k, v in bykey.items() if k not in known}
        old = {k: v for k, v in bykey.items() if k in known}
        self.cov["known_findings_hit"] = sorted(old)
        self.cov["inconclusive_cases"] = len(self.inconclusive)
        rc = 0
        for k in sorted(old):
            print("KNOWN-FINDING: property=%s key=%s %s (%d case(s) this run)" % (
                self.prop, k, known[k], len(old[k])))
        rdir = os.path.join(OUT, "replay", self.prop)
        for k in sorted(new):
            os.makedirs(rdir, exist_ok=True)
            path = os.path.join(rdir, re.sub(r"[^A-Za-z0-9_.-]", "_", k)[:80] + ".json")
            with open(path, "w") as fh:
                json.dump({"property": self.prop, "key": k, "seed": self.seed, "tier": self.tier,
                           "cases": new[k][:20]}, fh, indent=1)
            print("VIOLATION property=%s replay=%s" % (self.prop, path))
            print("  key=%s cases=%d first: %s" % (k, len(new[k]), str(new[k][0]["detail"])[:600]))
            rc = 1
        if rc == 0 and self.cov["evaluations"] > 0 and \
                len(self.inconclusive) > inconclusive_ok * self.cov["evaluations"]:
            print("INCONCLUSIVE property=%s: %d of %d cases could not be driven" % (
                self.prop, len(self.inconclusive), self.cov["evaluations"]))
            for r in self.inconclusive[:5]:
                print("   ", json.dumps(r)[:400])
            rc = 2
        ev = {
            "property_id": self.prop, "tier": self.tier, "seed": self.seed, "level": self.level,
            "coverage": self.cov, "assumptions": self.assumptions,
            "wall_s": round(wall, 2), "violations": len(new),
        }
        if self.level == "model_checking" and (self.cov["states"] < 1 or self.cov["transitions"] < 1):
            print("INCONCLUSIVE property=%s: no TLC state counts recorded" % self.prop)
            rc = rc or 2
        if not self.cov["samples"]:
            self.cov["samples"] = [{"note": "no passing sample recorded"}]
        if not self.replay and not os.environ.get("VERIF_NO_EVIDENCE"):
            with open(os.path.join(VERIF, "evidence", self.prop + ".json"), "w") as fh:
                json.dump(ev, fh, indent=1, default=str)
        print("RESULT property=%s tier=%s seed=%d states=%d transitions=%d evaluations=%d classes=%d traces=%d violations=%d known=%d inconclusive=%d wall=%.1fs exit=%d" % (
            self.prop, self.tier, self.seed, self.cov["states"], self.cov["transitions"],
            self.cov["evaluations"], self.cov["distinct_nontrivial"],
            self.cov["traces_validated_against_impl"], len(new), len(old),
            len(self.inconclusive), wall, rc))
        sys.stdout.flush()
        shutil.rmtree(self.scratch, ignore_errors=True)
        sys.exit(rc)


def main(fn, prop, **kw):
    """Wrap a check body: machinery failures become exit 2, never a verdict."""
    run = Run(prop, **kw)
    try:
        fn(run)
    except Inconclusive as e:
        print("INCONCLUSIVE property=%s: %s" % (prop, e))
        shutil.rmtree(run.scratch, ignore_errors=True)
        sys.exit(2)
    run.finish()
