# C16 -- security token renewal keeps the channel usable.
# spec/ScToken: (a) relation: renewal delay as a function of the revised lifetime, contract window
# [L/2, L); (b) small timed state machine: renew once per token inside the window, messages issued at
# any tick in either direction are accepted by the receiver (the old token stays known next to the new).
#  1. TLC proves InvRenewWindow for every lifetime of the range (thorough: every ms up to 20 s and
#     whole minutes up to 2 h) and InvRenewOnce / InvMacWindow / InvUsable on the machine.
#  2. Deviation demos = the code as it is: delay truncated to whole seconds (InvRenewWindow),
#     server re-keys its only instance in place (InvUsable).
#  3. Every lifetime row printed by TLC is bound to the real client: a channel is opened with that
#     lifetime and the delay the library computed is read from the hook renew.sched and compared
#     with the window of the row.
#     Secured modes: a request is pending during a renewal and its response arrives afterwards,
#     protected with the token that was current when the request was made (written with the old keys
#     by the harness, since the library's server channel has none left): it must be accepted.
#     In the renewal runs every OPN renewal request is delayed by 150 ms on its way to the server (the
#     whole client->server stream from it on, FIFO kept), so requests are issued while the renewal is in
#     flight (machine: RenewStart .. RenewEnd, gateQ; InvGateUsesNew), and one sender keeps a long poll
#     outstanding that the server answers after 1.5 lifetimes (a parked Publish across a renewal).
#  4. Real renewals (library timer, 2-3 s lifetimes, None and SignAndEncrypt) with client requests
#     and delayed server responses in flight all the time: every request must complete, no channel
#     error, exactly one renewal per token inside the window.
import vf
import sccorr_common as sc


def body(run):
    q = run.quick()
    exe = [None]
    jobs = [
        lambda: run.tlc("ScToken", "ScToken", "ScToken_rel.cfg", mode="gen", label="contract: renewal window for every lifetime (rows)", timeout=1500),
        lambda: run.tlc("ScToken", "ScToken", "ScToken_mac.cfg", label="contract: timed machine", workers=2, timeout=1500),
        lambda: run.tlc("ScToken", "ScToken", "ScToken_dev_floor.cfg", expect="violation", count=False, workers=1, label="demo (repaired 2282172): whole-second delay"),
        lambda: run.tlc("ScToken", "ScToken", "ScToken_dev_rekey.cfg", expect="violation", count=False, workers=1, label="as-is: server re-keys in place"),
        lambda: exe.__setitem__(0, run.go_build("scsend")),
        lambda: run.tlc("ScToken", "ScToken", "ScToken_dev_gateold.cfg", expect="violation", count=False, workers=1,
                        label="demo: request issued during a renewal sent with the superseded token"),
    ]
    if not q:
        jobs += [lambda: run.tlc("ScToken", "ScToken", "ScToken_rel_t.cfg", label="contract: every lifetime 2..20000 ms", workers=4, timeout=3000),
                 lambda: run.tlc("ScToken", "ScToken", "ScToken_rel_gen_t.cfg", mode="gen", count=False, label="rows: 50 ms grid", timeout=3000)]
    res = run.parallel(*jobs)
    if res[2].violated != "InvRenewWindow" or res[3].violated != "InvUsable" or res[5].violated != "InvGateUsesNew":
        raise vf.Inconclusive("deviation demos violated %s / %s / %s" % (res[2].violated, res[3].violated, res[5].violated))
    rows = list(res[0].rows)
    if not q:
        seen = {r["lifetime"] for r in rows}
        rows += [r for r in res[7].rows if r["lifetime"] not in seen]
    cases = [{"n": i, "mode": "lifetime", "lifetime_ms": r["lifetime"]} for i, r in enumerate(rows)]
    byl = {r["lifetime"]: r for r in rows}
    # the same rows with the server's clock an hour behind / ahead of the client's
    for r in rows:
        if r["lifetime"] in (1000, 2000, 5000, 60000, 3600000):
            for skew in (-3600000, 3600000):
                cases.append({"n": len(cases), "mode": "lifetime", "lifetime_ms": r["lifetime"], "skew_ms": skew})
    base = len(cases)
    runs = [dict(policy="None", secmode="None", lifetime_ms=2000, duration_ms=6500, senders=3),
            dict(policy="Basic256Sha256", secmode="SignAndEncrypt", lifetime_ms=2000, duration_ms=6500, senders=3)]
    if not q:
        runs += [dict(policy="None", secmode="None", lifetime_ms=3000, duration_ms=20000, senders=4),
                 dict(policy="Basic256Sha256", secmode="Sign", lifetime_ms=3000, duration_ms=12000, senders=3),
                 dict(policy="Aes128_Sha256_RsaOaep", secmode="SignAndEncrypt", lifetime_ms=4000, duration_ms=14000, senders=3),
                 dict(policy="None", secmode="None", lifetime_ms=1000, duration_ms=4000, senders=2)]
    for i, r in enumerate(runs):
        r.update({"n": base + i, "mode": "renewrun"})
        cases.append(r)
    # machine behaviour  Send(s2c, old token) ; Renew ; Recv : a response protected with the token that was
    # current when its request was made arrives after the renewal has completed (InvUsable)
    old = [("Basic256Sha256", "SignAndEncrypt"), ("Basic256Sha256", "Sign")]
    if not q:
        old += [(pol, m) for pol in ("Basic128Rsa15", "Basic256", "Aes128_Sha256_RsaOaep", "Aes256_Sha256_RsaPss") for m in ("Sign", "SignAndEncrypt")]
    for pol, m in old:
        cases.append({"n": len(cases), "mode": "oldtoken", "policy": pol, "secmode": m})
    run.log("TLC: %d states; %d lifetime rows, %d renewal runs, %d old-token responses" % (run.cov["states"], len(rows), len(runs), len(old)))
    results = run.go_run(exe[0], [], cases=cases, timeout=run.pick(600, 2400), env=sc.race_env())
    if len(results) < len(cases):
        raise vf.Inconclusive("harness returned %d results for %d cases" % (len(results), len(cases)))
    SLACK_MS = 400
    for r in results:
        o = r.get("obs") or {}
        if r.get("status") != "ok":
            continue
        if r["case"]["mode"] == "oldtoken":
            if o.get("problem"):
                r["status"], r["key"], r["detail"] = "violation", o["problem"] + "-" + r["case"]["secmode"].lower(), "%s/%s: %s" % (r["case"]["policy"], r["case"]["secmode"], o["problem_detail"])
            continue
        if r["case"]["mode"] == "lifetime":
            row = byl[o["lifetime_ms"]]
            when = o["renew_when_ns"] / 1e6
            rev = o["revised_lifetime_ns"] / 1e6
            r["obs"] = {"lifetime_ms": o["lifetime_ms"], "skew_ms": o.get("skew_ms", 0), "renew_delay_ms": when, "window": [row["lo"], row["hi"]]}
            if rev != row["lifetime"]:
                r["status"], r["key"], r["detail"] = "inconclusive", "", "revised lifetime %s differs from the requested %s" % (rev, row["lifetime"])
            elif not (row["lo"] <= when < row["hi"]):
                trunc = (when == row["asis"] and row["asis"] != row["contract"])
                r["status"] = "violation"
                r["key"] = ("renewal-delay-truncated-to-whole-seconds-zero" if when == 0 else "renewal-delay-truncated-to-whole-seconds-before-half-lifetime") if trunc else "renewal-delay-outside-window"
                if o.get("skew_ms"):
                    r["key"] = "renewal-delay-depends-on-server-clock"
                r["detail"] = ("server clock %+d ms: " % o.get("skew_ms", 0) if o.get("skew_ms") else "") + "lifetime %d ms: the client schedules the renewal after %d ms, the specification requires [%d, %d) (0.75 L = %d)" % (
                    row["lifetime"], when, row["lo"], row["hi"], row["contract"])
        else:
            L = o["lifetime_ms"]
            tl = o.get("timeline", [])
            installs = [e for e in tl if e["ev"] == "open.installed"]
            fires = [e for e in tl if e["ev"] == "renew.fire"]
            scheds = [e for e in tl if e["ev"] == "renew.sched"]
            r["obs"] = {k: o[k] for k in ("lifetime_ms", "ok_requests", "failures", "channel_errors", "server_receive_errors", "long_polls_ok", "renewals_delayed")}
            r["obs"].update({"renewals": len(installs), "fires": len(fires)})
            secure = r["case"].get("policy") != "None"
            probs = []
            if o["failures"]:
                probs.append(("request-fails-around-renewal-" + ("secure" if secure else "none"),
                              "%d request(s) failed during a run with renewals every ~%d ms: %s" % (len(o["failures"]), L, o["failures"][:3])))
            if o["channel_errors"]:
                probs.append(("channel-error-around-renewal-" + ("secure" if secure else "none"), "channel errors: %s" % o["channel_errors"][:3]))
            # once per token, inside the window (the initial token was installed before the recorder was attached)
            if len(fires) > len(installs) + 1:
                probs.append(("token-renewed-more-than-once", "%d renewal timers fired for %d installed tokens" % (len(fires), len(installs) + 1)))
            if r["case"]["duration_ms"] >= 3 * L and not o["failures"] and (o.get("long_polls_ok", 0) < 1 or o.get("renewals_delayed", 0) < 1):
                r["status"], r["detail"] = "inconclusive", "no long poll completed / no renewal was delayed: the run does not exercise requests outstanding across a renewal"
                continue
            if not installs and o.get("ok_requests", 0) > 0 and r["case"]["duration_ms"] > L:
                probs.append(("token-not-renewed-before-expiry", "no renewal completed within %d ms (lifetime %d ms)" % (r["case"]["duration_ms"], L)))
            for a, b in zip(installs, installs[1:]):
                dt = (b["t"] - a["t"]) / 1e6
                if dt < L / 2 - SLACK_MS:
                    probs.append(("token-renewed-before-half-lifetime", "tokens installed %d ms apart, lifetime %d ms" % (dt, L)))
                if dt > L + SLACK_MS:
                    probs.append(("token-renewed-after-expiry", "tokens installed %d ms apart, lifetime %d ms" % (dt, L)))
            if probs:
                r["status"], r["key"], r["detail"] = "violation", probs[0][0], probs[0][1]
                for k, d in probs[1:]:
                    run.violation(k, d, case=r["case"])
    run.absorb(results)
    # binding demonstration: a row with a shifted window must reject the observed delay
    ok_rows = [r for r in results if r.get("status") == "ok" and r["case"]["mode"] == "lifetime" and "window" in (r.get("obs") or {})]
    if ok_rows:
        r = ok_rows[len(ok_rows) // 2]
        w = r["obs"]["window"]
        shifted = [w[1], 2 * w[1]]
        run.cov["binding_demo"] = {"observed_delay_ms": r["obs"]["renew_delay_ms"], "shifted_window": shifted,
                                   "rejected": not (shifted[0] <= r["obs"]["renew_delay_ms"] < shifted[1])}
    run.cov["rule"] = "one case per lifetime row printed by TLC (class = lifetime) + one per renewal run (policy x mode x lifetime) + one old-token response per policy x mode"
    run.assumptions += [
        "the server channel of the pair revises the lifetime to the requested value; the delay is read from the renew.sched hook (no waiting)",
        "renewal runs: slack %d ms for the distance of two token installations; request timeout 3 s" % SLACK_MS,
        "token ids are reused by the library's server channel, so tokens are told apart by their installation events",
        "TLC, SANY, Go toolchain trusted",
    ]


vf.main(body, "C16", design_ref="S7/C16")
