# C20 -- messages delivered to the application never change afterwards (exploration).
# spec/ScRecv supplies the histories: every plan of three messages of 1..3 chunks, per security
# mode, with the model-level statement that each message is delivered whole exactly once
# (InvReassembly / InvNoReplay checked by TLC on the same run).  The harness runs 2-3 real
# channels in parallel per case (client and server receivers, different modes), sends every
# history three times with different contents through the real sender, deep-snapshots every
# delivered message inside the receive goroutine (re-encoding + copy of the payload byte string)
# and compares all snapshots after all traffic: a decoded byte string that aliases a reused
# transport buffer shows up as a changed message.
import vf
import screcv_common as sc

POL = {"None": "None", "Sign": "Basic256Sha256", "SignAndEncrypt": "Basic256Sha256"}


def body(run):
    q = run.quick()
    exe = [None]
    res = run.parallel(
        lambda: run.tlc("ScRecv", "ScRecv_MC", "ScRecv_c20_gen.cfg", mode="gen", label="histories: 27 plans x 3 modes, delivered whole exactly once"),
        lambda: exe.__setitem__(0, run.go_build("screcv")),
    )
    rows = res[0].rows
    import random
    rnd = random.Random(run.seed * 104729 + 5)
    ncases = run.pick(12, 120)
    cases = []
    for i in range(ncases):
        chans = []
        for j in range(rnd.choice([2, 3])):
            b = dict(rnd.choice(rows))
            b.pop("steps", None)
            b.pop("chunks", None)
            pol = POL[b["mode"]]
            if not q and b["mode"] != "None":
                pol = rnd.choice([p for p, m in sc.SECURED if m == b["mode"]])
            b.update({"prop": "C20", "policy": pol, "side": rnd.choice(["server", "client"]), "sender": "real"})
            chans.append(b)
        cases.append({"prop": "C20", "channels": chans})
    # the documented client set-up: a byte string of a delivered GetEndpointsResponse configures another
    # channel, whose OPN exchange (other certificate / certificate chain) must not write into that message
    for pol, mode in ([("Basic256Sha256", "Sign"), ("Basic256Sha256", "SignAndEncrypt")] if q else sc.SECURED):
        cases.append({"prop": "C20", "kind": "endpoints", "channels": [{"policy": pol, "mode": mode, "side": "client", "plan": []}]})
    run.log("TLC: %d states, %d histories; %d cases (2-3 channels in parallel each)" % (run.cov["states"], len(rows), len(cases)))
    results = run.go_run(exe[0], ["-par", "6", "-batch", "4"], cases=cases, timeout=run.pick(900, 2400))
    if len(results) != len(cases):
        raise vf.Inconclusive("harness returned %d results for %d cases" % (len(results), len(cases)))
    sc.log_inconclusive(run, results)
    run.absorb(results)
    n = sum((r.get("obs") or {}).get("messages_compared", 0) for r in results if r.get("status") == "ok")
    run.cov["messages_compared"] = n
    run.cov["rule"] = ("one case = 2-3 channels in parallel, each (receiving side, mode, TLC history of three messages of 1..3 chunks) sent three "
                       "times with different contents; class = the tuple of (side, mode, chunks per message) of its channels")
    run.assumptions += [
        "aliasing is observed, not proved: a delivered message counts as unchanged if its re-encoding and its payload byte string are byte-identical after all later traffic on the same and on the parallel channels",
        "the snapshot is taken inside the receive goroutine before the next frame is read",
        "cross-connection case: a GetEndpointsResponse delivered on a discovery channel supplies RemoteCertificate (not copied) for a second channel, whose peer answers the OPN request with OPN chunks carrying another certificate, a certificate chain and a longer certificate",
    ]


vf.main(body, "C20", level="exploration", design_ref="S5/C20")
