# Shared helpers of the ScRecv family checks (C09 C10 C12 C13 C17 C20).
import json
import random

SECURED = [("Basic256Sha256", "Sign"), ("Basic256Sha256", "SignAndEncrypt"),
           ("Basic128Rsa15", "Sign"), ("Basic128Rsa15", "SignAndEncrypt"),
           ("Basic256", "Sign"), ("Basic256", "SignAndEncrypt"),
           ("Aes128_Sha256_RsaOaep", "Sign"), ("Aes128_Sha256_RsaOaep", "SignAndEncrypt"),
           ("Aes256_Sha256_RsaPss", "Sign"), ("Aes256_Sha256_RsaPss", "SignAndEncrypt")]


def inputs_key(beh):
    """What the adversary and the sender did, independent of the receiver's reaction."""
    return json.dumps([beh["plan"], beh["sp"], [(s["in"], s["id"], s["dmg"]) for s in beh["steps"]]], sort_keys=True)


def join_asis(contract, asis):
    """Attach the as-is outcome of every step (same inputs, deviation flags on) to the contract behaviour."""
    idx = {inputs_key(b): b for b in asis}
    out = []
    for b in contract:
        a = idx.get(inputs_key(b))
        if a is None:
            out.append(b)
            continue
        for s, t in zip(b["steps"], a["steps"]):
            s["asis"] = t["expect"]
            if "parts" in t:
                s["asis_parts"] = t["parts"]
                s["asis_whole"] = t.get("whole", False)
        out.append(b)
    return out


def nontrivial(beh):
    return any(s["in"] != "pass" for s in beh["steps"])


def sample(rows, n, seed, salt=0):
    rows = list(rows)
    if n is None or len(rows) <= n:
        return rows
    rnd = random.Random(seed * 7919 + salt)
    return rnd.sample(rows, n)


def trace_lines(run_results):
    return []


def log_inconclusive(run, results, n=3):
    bad = [r for r in results if r.get("status") == "inconclusive"]
    for r in bad[:n]:
        run.log("inconclusive case: %s" % str(r.get("detail"))[:300])
    return len(bad)


def validate_traces(run, exe_result_trace_path, label, corrupt=False):
    """Let TLC validate the recorded traces (inputs + receiver events of every replayed behaviour) against
    the receiver of spec/ScRecv (ScRecvTrace).  Returns (ok, number of traces)."""
    import os
    if not os.path.exists(exe_result_trace_path):
        return None, 0
    lines = [l for l in open(exe_result_trace_path).read().splitlines() if l.strip()]
    n = sum(1 for l in lines if '"ev":"reset"' in l)
    if n == 0:
        return None, 0
    if corrupt:
        # binding self-test: flip the verdict of one recorded Receive return
        for i, l in enumerate(lines):
            if '"ev":"ret"' in l and '"err":false' in l:
                lines[i] = l.replace('"err":false', '"err":true')
                break
    lines.append(json.dumps({"ev": "reset", "mode": "None", "reqs": []}))
    tr = run.tlc("ScRecv", "ScRecvTrace", "ScRecvTrace.cfg", mode="trace", files={"trace.ndjson": "\n".join(lines) + "\n"},
                 deque=True, count=False, label=label, timeout=1200)
    return tr.ok, n


def stratified(rows, key, n_per, seed, salt=0):
    """Seeded sample with at least n_per rows of every value of key(row)."""
    groups = {}
    for r in rows:
        groups.setdefault(key(r), []).append(r)
    out = []
    for i, k in enumerate(sorted(groups, key=str)):
        out += sample(groups[k], n_per, seed, salt * 31 + i)
    return out
