# C25 -- connection state follows the documented lifecycle under faults.
# spec/ClientConn: monitor (one action per reconnectAction arm), Close, faults.  TLC proves the
# contract configuration (ActTransitions, InvAfterClose, Reconnect-related invariants), shows
# the deviation demo, and generates fault scenarios (kind x injection point x Close point) that
# the harness executes against the real client behind a TCP proxy with the real server in a
# child process.  The hook trace is validated by TLC (ClientConnLife: every reported state
# transition is checked against the documented set, nothing after Close); the harness checks
# "Connected again with a working Read", "Closed", "no dial after Close", "no goroutines".
import os
import sys

sys.path.insert(0, os.path.dirname(os.path.abspath(__file__)))
import vf
import clientconn_lib as cl

vf.main(lambda run: cl.run_faults(run, vf, "C25"), "C25", design_ref="S9/C25")
