# C29 -- no client can crash or hang the server.
#
# spec/ServerLive/ServerLive.tla  server core over request classes (every registered request type x
#                                 argument class x session class); contract: InvAliveAndResponsive;
#                                 Dev_* flags = root causes that kill the process as the code is written
# harness/cmd/serverlive          replays the TLC-generated request sequences on the real server (child
#                                 process), canary client after every step (bound 2 s)
#
# The expected outcome of every step comes from the specification: the contract expects an answer
# for every request; the as-is configuration (Dev_x = TRUE exactly for the open findings
# `server-panic:Dev_x`) predicts which step kills the server.  A crash the as-is specification
# predicts is the listed known finding; any other crash or a canary time-out is a violation.
import json

import vf

DEVS = ["Dev_TickerInterval", "Dev_NoSessionCheck", "Dev_NilSession", "Dev_UnknownItem", "Dev_BlockedFanout", "Dev_EndedSubFanout"]
ALLSVC = "{}"
STATEFUL = ('{"CreateSubscription","CreateMonitoredItems","SetMonitoringMode","DeleteMonitoredItems","DeleteSubscriptions",'
            '"CloseSession","Publish","Read","Browse","Write","ActivateSession"}')


def cfg(maxlen, emit, flags, svc, inv):
    lines = ["CONSTANTS", "  MaxLen = %d" % maxlen, "  Emit = %s" % ("TRUE" if emit else "FALSE")]
    for d in DEVS:
        lines.append("  %s = %s" % (d, "TRUE" if flags.get(d) else "FALSE"))
    lines += ["  SvcFilter = %s" % svc, "SPECIFICATION Spec", inv, "CHECK_DEADLOCK FALSE", ""]
    return "\n".join(lines)


def body(run):
    q = run.quick()
    known, _ = run.known()
    asis = {d: ("server-panic:" + d) in known or ("server-hang:" + d) in known for d in DEVS}
    run.cov["as_is_flags"] = asis
    exe = [None]
    gen1 = cfg(1, True, asis, ALLSVC, "INVARIANT InvEmit")
    gens = cfg(3 if q else 4, True, asis, STATEFUL, "INVARIANT InvEmit")
    res = run.parallel(
        lambda: run.tlc("ServerLive", "ServerLive", "ServerLive_mc.cfg" if q else "ServerLive_mc3.cfg",
                        label="contract: every request sequence is answered (InvAliveAndResponsive, InvItemInSub)", timeout=3000, workers=4),
        lambda: run.tlc("ServerLive", "ServerLive", "ServerLive_dev.cfg", expect="violation", count=False, workers=4,
                        label="deviation demo: the four root causes kill the server"),
        lambda: run.tlc("ServerLive", "ServerLive", "gen1.cfg", mode="gen", files={"gen1.cfg": gen1}, count=False,
                        label="rows: every (request type, argument class, session class) once"),
        lambda: run.tlc("ServerLive", "ServerLive", "gens.cfg", mode="gen", files={"gens.cfg": gens}, count=False,
                        simulate=run.pick(60, 3000), depth=run.pick(4, 5),
                        label="rows: seeded request sequences over the stateful services"),
        lambda: exe.__setitem__(0, run.go_build("serverlive")),
    )
    rows = [r for r in res[2].rows if r["steps"][0]["cl"] == 1]      # the start state is symmetric in the two clients
    seen = set()
    for r in res[3].rows:
        k = json.dumps(r, sort_keys=True)
        if k not in seen and len(r["steps"]) > 1:
            seen.add(k)
            rows.append(r)
    for i, r in enumerate(rows):
        r["id"] = i + 1
    run.log("%d rows (%d single requests, %d sequences)" % (len(rows), len([r for r in rows if len(r["steps"]) == 1]),
                                                              len([r for r in rows if len(r["steps"]) > 1])))
    results = run.go_run(exe[0], [], cases=rows, timeout=3000)
    if len(results) != len(rows):
        raise vf.Inconclusive("harness returned %d results for %d rows" % (len(results), len(rows)))
    drift = [r["obs"]["drift"] for r in results if r.get("status") == "ok" and isinstance(r.get("obs"), dict) and r["obs"].get("drift")]
    lat = [m["lat_us"] for r in results if r.get("status") == "ok" for m in r["obs"].get("marks", []) if m.get("phase") == "done"]
    for r in results:
        if isinstance(r.get("obs"), dict):
            r["obs"] = {"steps": [m.get("resp", "") for m in r["obs"].get("marks", []) if m.get("phase") == "done"][:4]}
    run.absorb(results)
    for r in [r for r in results if r.get("status") == "inconclusive"][:5]:
        run.log("inconclusive:", json.dumps(r)[:600])
    if drift:
        run.notes.append("steps the as-is specification expected to kill the server but it survived (model drift, not a verdict): %d, e.g. %s"
                         % (len(drift), drift[0]))
        run.cov["drift"] = len(drift)
    if lat:
        run.cov["canary_latency_us"] = {"max": max(lat), "median": sorted(lat)[len(lat) // 2], "n": len(lat)}
    run.cov["rows_single"] = len([r for r in rows if len(r["steps"]) == 1])
    run.cov["rows_sequences"] = len([r for r in rows if len(r["steps"]) > 1])
    run.cov["rule"] = ("one evaluation per request sequence replayed on a real server from the standard start state (two clients with "
                       "session, subscription, monitored item); class = the sequence of (service, argument class, session class); "
                       "single requests exhaustive over the specification's classes, longer sequences seeded (TLC -simulate)")
    run.assumptions += [
        "canary: a Read by a separate client with its own session must be answered within 2 s after every step (one reconnect of the canary allowed)",
        "120 ms settle time after every step so that a subscription goroutine started by the step has ticked",
        "a dying server process is attributed to the step in flight (marker printed before every step)",
        "argument classes, not raw bytes: malformed chunks / bodies are the business of C02 / C13",
    ]


vf.main(body, "C29", design_ref="S10/C29")
