# Helpers shared by the family F checks (C37, C30, C22, C21).
import json


def dedupe(rows):
    """TLC may print a row twice (invariant evaluated more than once for a state)."""
    seen, out = set(), []
    for r in rows:
        s = json.dumps(r, sort_keys=True)
        if s not in seen:
            seen.add(s)
            out.append(r)
    return out


def need(results, rows, what):
    import vf
    if len(results) != len(rows):
        raise vf.Inconclusive("%s: harness returned %d results for %d rows" % (what, len(results), len(rows)))
