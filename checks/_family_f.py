# Helpers shared by the family F checks (C37, C30, C22, C21).
import json


def dedupe(rows):
    """TLC may print a row twice (invariant evaluated more than once for a state)."""
    seen, out = set(), []
    for r in rows:
        s = json.dumps(r, sort_keys=True)
        if s not in seen:
            seen.add(s)
            out.append(r)
    return out


def need(results, rows, what):
    import vf
    if len(results) != len(rows):
        raise vf.Inconclusive("%s: harness returned %d results for %d rows" % (what, len(results), len(rows)))


class Background:
    """TLC runs that the replay does not depend on (contract model, deviation demos) run beside it."""

    def __init__(self, *thunks):
        import concurrent.futures as cf
        self.ex = cf.ThreadPoolExecutor(max_workers=max(1, len(thunks)))
        self.futs = [self.ex.submit(t) for t in thunks]

    def join(self):
        res = [f.result() for f in self.futs]   # re-raises vf.Inconclusive of a failed run
        self.ex.shutdown()
        return res
