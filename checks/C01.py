# C01 -- binary codec round-trips every value of every protocol type.
# spec/Codec: Enc / Dec / Norm over abstract values (all 25 built-in types, Variant shapes incl. multi-dim,
# all 64 DataValue masks, all 128 DiagnosticInfo masks with nesting, LocalizedText masks, NodeID/ExpandedNodeID
# encodings, ExtensionObject kinds; generic structures by schema).  TLC proves Dec(Enc(v)) = Norm(v) with nothing
# left over for every value, two deviation demos must be caught, and every state is replayed on ua.Encode /
# ua.Decode: bytes against the specification's tokens (binding), decoded value against Norm(v), consumed length.
import codec_common as cc
import vf


def body(run):
    q = run.quick()
    exe = run.go_build("codec")
    files = cc.schema_files(run, exe)
    res = run.parallel(
        lambda: cc.value_rows(run),
        lambda: run.tlc("Codec", "Codec", "Codec_dev_bsarr.cfg", expect="violation", count=False,
                        label="deviation demo: array of ByteString without elements violates InvRoundTrip"),
        lambda: run.tlc("Codec", "Codec", "Codec_dev_zerodim.cfg", expect="violation", count=False,
                        label="deviation demo: decoder rejecting a zero-length dimension violates InvRoundTrip"),
        lambda: cc.struct_rows(run, files, not q))
    rows = res[0].rows + res[3].rows
    run.log("TLC: %d states; %d rows to replay" % (run.cov["states"], len(rows)))
    results = run.go_run(exe, ["-mode", "c01"], cases=rows, timeout=1800)
    if len(results) != len(rows):
        raise vf.Inconclusive("harness returned %d results for %d rows" % (len(results), len(rows)))
    run.absorb(results)
    run.cov["rows_builtin"] = len(res[0].rows)
    run.cov["rows_structs"] = len(res[3].rows)
    run.cov["rule"] = ("one case per TLC state; class = type / encoding or mask or Variant element type x shape "
                       "(scalar, null array, empty, 1-D, multi-dim, zero-length dimension) resp. structure x recipe")
    run.assumptions += [
        "a nil *Variant in a DataValue and the Null Variant are the same abstract value (absent field = null, Part 6 5.2.2.17)",
        "mask-driven values carry consistent masks (fields whose mask bit is clear are zero), as the constructors / UpdateMask produce",
        "nil structure pointers are outside the value domain (OPC UA structures have no optional structure fields)",
        "DateTime within the int64-nanosecond range; scalar bit patterns via encoding/binary and math (trusted)",
        "ExtensionObject XML bodies are modelled as implemented (an XmlElement inside the length-prefixed body)",
    ]


vf.main(body, "C01", design_ref="S12/C01")
