# shared by C01 / C03 / C02: TLC rows for the built-in values and for every registered structure
import vf


def schema_files(run, exe):
    res = run.go_run(exe, ["-mode", "schemas"], cases=[])
    sch = [r for r in res if r.get("status") == "ok" and r.get("class") == "schemas"]
    if not sch:
        raise vf.Inconclusive("harness did not produce the schemas of the registered types")
    o = sch[0]["obs"]
    run.cov["registered_types"] = o["types"]
    if o.get("not_modelled"):
        run.notes.append("registered types not described by the model: %s" % o["not_modelled"])
    return {"CodecSchemas.tla": o["tla"]}


def value_rows(run, count=True):
    r = run.tlc("Codec", "Codec", "Codec_values_gen.cfg", mode="gen", timeout=3000, count=count,
                label="contract InvRoundTrip + rows: every built-in value")
    if r.distinct != len(r.rows):
        raise vf.Inconclusive("values: %d states but %d rows" % (r.distinct, len(r.rows)))
    return r


def struct_rows(run, files, full, count=True):
    r = run.tlc("Codec", "CodecStructs", "CodecStructs_gen.cfg" if full else "CodecStructs_quick_gen.cfg",
                mode="gen", files=files, timeout=3000, count=count,
                label="contract InvRoundTripG + rows: every registered structure x recipe")
    if r.distinct != len(r.rows):
        raise vf.Inconclusive("structures: %d states but %d rows" % (r.distinct, len(r.rows)))
    return r


def derive(run, exe, mode, rows, n):
    res = run.go_run(exe, ["-mode", mode, "-n", str(n)], cases=rows, timeout=900)
    return [r["case"] for r in res if r.get("status") == "ok" and r.get("class") == "gen"]
