# C21 -- client calls never panic on any well-formed server response.
# spec/ClientOp: every client operation as the pipeline recv -> type check -> length guard -> index ->
# type guard -> use -> return, over the table of operations x response shapes.  TLC proves that the
# contract (all guards present) never panics and always returns, the as-is deviation sets (operations
# whose guard is missing in the code) must violate InvNoPanic, and every initial state (operation,
# shape, expected outcome) is replayed: a scripted server on a real uasc server channel answers with a
# response of that shape, the real client call runs in a child process (panics in background goroutines
# included).  The deviation sets the code had before its repair (commit aacaf02) are kept as the
# non-vacuity demos; the as-is model is now the contract.
import json
import vf
from _family_f import dedupe, need


def key(r):
    return json.dumps([r["op"], r["sh"]], sort_keys=True)


def body(run):
    q = run.quick()
    exe = [None]
    res = run.parallel(
        lambda: run.tlc("ClientOp", "ClientOp", "ClientOp_mc.cfg",
                        label="contract: no operation panics, every operation returns, bad responses are errors", timeout=3000),
        lambda: run.tlc("ClientOp", "ClientOp", "ClientOp_dev_len.cfg", expect="violation", count=False,
                        label="deviation demo: indexing without a length check violates InvNoPanic"),
        lambda: run.tlc("ClientOp", "ClientOp", "ClientOp_dev_typ.cfg", expect="violation", count=False,
                        label="deviation demo: unchecked value type assertion violates InvNoPanic"),
        lambda: run.tlc("ClientOp", "ClientOp", "ClientOp_gen.cfg", mode="gen", count=False,
                        label="rows: one per (operation, response shape) with the contract outcome"),
        lambda: exe.__setitem__(0, run.go_build("clientop")),
    )
    rows = dedupe(res[3].rows)
    if not rows:
        raise vf.Inconclusive("TLC emitted no rows")
    # since the repair (commit aacaf02) the as-is model is the contract: no deviating disjunct is enabled
    for r in rows:
        r["asis"] = r["expect"]
    total = len(rows)
    if q:
        # quick: for operations that hand the response to the caller unindexed, keep the counts 0 and n only
        rows = [r for r in rows if not (r["idx"] == "none" and not r["val"] and r["sh"]["rtype"] == "expected"
                                        and r["sh"]["status"] == "good" and r["sh"]["count"] not in (0, r["n"]))]
    run.log("TLC: %d states; %d of %d (operation, shape) rows to replay" % (run.cov["states"], len(rows), total))
    results = []
    seeds = [run.seed] if q else [run.seed, run.seed + 1000, run.seed + 2000]
    for sd in seeds:
        saved = run.seed
        run.seed = sd
        try:
            rs = run.go_run(exe[0], ["-par", "8" if q else "12"], cases=rows, timeout=3000)
        finally:
            run.seed = saved
        need(rs, rows, "clientop")
        results += rs
    run.absorb(results)
    oks = [r for r in results if r.get("status") == "ok"]
    agree = sum(1 for r in oks if r.get("obs", {}).get("agrees"))
    predicted = sum(1 for r in rows if r["asis"] == "panic") * len(seeds)
    observed = sum(1 for r in results if r.get("status") == "violation" and str(r.get("key", "")).startswith("panic"))
    unpredicted = [r for r in results if r.get("status") == "violation" and r["case"].get("asis") != "panic"]
    missed = [r for r in oks if r["case"].get("asis") == "panic"]
    run.cov["behaviours_replayed"] = len(results)
    run.cov["operations"] = len({r["op"] for r in rows})
    run.cov["value_or_error_agrees_with_model"] = "%d of %d returned calls" % (agree, len(oks))
    run.cov["asis_model_panics_predicted"] = predicted
    run.cov["panics_observed"] = observed
    run.cov["panics_not_predicted_by_asis_model"] = len(unpredicted)
    run.cov["asis_predictions_not_observed"] = len(missed)
    if missed:
        run.notes.append("as-is model predicts a panic that the code did not show (guard present in this tree?): " +
                         ", ".join(sorted({m["case"]["op"] for m in missed})))
    run.cov["rule"] = ("one case per TLC initial state = (client operation, response shape: type x status x result count "
                       "in {0, n-1, n, n+1} x Variant class x item status x service specific extra); class = that tuple; "
                       "quick: every pair once except intermediate counts for operations that do not touch the results; "
                       "thorough: every pair with three seeds (other types, fault codes vary)")
    run.assumptions += [
        "verdict = panic (child process dies with a Go panic, background goroutines included) or a call that does not return; "
        "whether a returned call is a value or an error is compared with the model and reported, not judged",
        "responses are built with the library's own encoder, so only shapes that encode are explored",
        "request timeout 5 s, per-case child timeout 90 s",
    ]


vf.main(body, "C21", design_ref="ClientOp/C21")
