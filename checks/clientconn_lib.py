# Helpers shared by the ClientConn family checks (C25, C26, C27).
import json
import random

APP_HOOKS = ("sub.resume.send", "sub.resume.sent", "forget.lock", "forget.locked", "sub.pause.send", "sub.pause.sent")
LOOP_HOOKS = ("sub.loop", "pub.send", "pub.lock", "pub.locked", "sub.pause.send", "sub.pause.sent")


def scripts_of(beh):
    """initial scripts of a generated behaviour (first history element)"""
    for s in beh["steps"]:
        if s["p"] == "init":
            return s["x"]
    return {}


def strip_init(beh):
    b = dict(beh)
    b["steps"] = [s for s in beh["steps"] if s["p"] != "init"]
    return b


def normalize_replay(trace, scripts, apps=("a1", "a2")):
    """hook events of one gated replay (up to the free-run marker) -> records for ClientConnTrace"""
    out = [{"g": "main", "ev": "reset", "arm": "", "api": "", "id": 0, "ndata": 0,
            "scripts": {a: list(scripts.get(a, [])) for a in apps}}]
    cur = {}
    started = False
    for e in trace or []:
        g, ev = e.get("g"), e.get("ev")
        if ev == "replay.start":
            started = True
            continue
        if ev == "replay.freerun":
            break
        if not started:
            continue
        rec = {"g": g, "ev": ev, "arm": e.get("arm", "") or "", "api": "", "id": 0,
               "ndata": int(e.get("ndata", 0) or 0), "scripts": {}}
        if g in apps:
            if ev == "call":
                cur[g] = (e["api"], e["id"])
            elif ev in ("return", "skip"):
                rec["api"], rec["id"] = e["api"], int(e.get("id", 0) or 0)
                out.append(rec)
            elif ev in APP_HOOKS:
                rec["api"], rec["id"] = cur.get(g, ("", 0))
                out.append(rec)
        elif g == "loop" and ev in LOOP_HOOKS:
            out.append(rec)
    return out


def pick(rows, n, seed, key=None):
    """seeded sample of n rows, keeping one of every distinct key first"""
    rnd = random.Random(seed)
    rows = list(rows)
    rnd.shuffle(rows)
    if key is None:
        return rows[:n]
    seen, first, rest = set(), [], []
    for r in rows:
        k = key(r)
        (rest if k in seen else first).append(r)
        seen.add(k)
    return (first + rest)[:n]


def stuck_index(out):
    import re
    m = re.search(r'STUCK (\d+)', out)
    return int(m.group(1)) if m else None


def _rec(**kw):
    r = {"g": "", "ev": "", "arm": "", "api": "", "id": 0, "okcall": 0, "state": "", "action": "", "kind": "",
         "ndata": 0, "sub": 0, "seq": 0, "known": 1, "acks": [], "scripts": {}}
    r.update(kw)
    return r


def normalize_life(trace, nsub, app="a1"):
    """hook events of a free-running fault scenario -> records for ClientConnLife"""
    out = [_rec(g="main", ev="reset", scripts={app: ["sub"] * nsub + ["close"]}),
           _rec(g="loop", ev="sub.loop", arm="pause")]
    tr = trace or []
    started = False
    for i, e in enumerate(tr):
        g, ev = e.get("g"), e.get("ev")
        if ev == "replay.start":
            started = True
            continue
        if not started:
            continue
        if g == app:
            if ev == "call" and e.get("api") == "subscribe":
                ok = 0
                for f in tr[i + 1:]:
                    if f.get("g") == app and f.get("ev") == "sub.resume.send":
                        ok = 1
                        break
                    if f.get("g") == app and f.get("ev") == "return":
                        break
                out.append(_rec(g=app, ev="call", api="subscribe", id=int(e.get("id", 0)), okcall=ok))
            elif ev in APP_HOOKS:
                out.append(_rec(g=app, ev=ev, id=0))
            elif ev == "state" and e.get("state") == "Closed":
                out.append(_rec(g=app, ev="state", state="Closed"))
            elif ev == "closed":
                out.append(_rec(g=app, ev="closed"))
        elif g == "loop":
            if ev == "sub.loop":
                out.append(_rec(g=g, ev=ev, arm=e.get("arm", "")))
            elif ev == "pub.send":
                acks = [[int(a.get("SubscriptionID", 0)), int(a.get("SequenceNumber", 0))] for a in (e.get("acks") or [])]
                out.append(_rec(g=g, ev=ev, acks=acks))
            elif ev == "pub.lock":
                out.append(_rec(g=g, ev=ev, sub=int(e.get("sub", 0))))
            elif ev == "pub.locked":
                out.append(_rec(g=g, ev=ev, sub=int(e.get("sub", 0)), seq=int(e.get("seq", 0)), ndata=int(e.get("ndata", 0))))
            elif ev in ("sub.pause.send", "sub.pause.sent"):
                out.append(_rec(g=g, ev=ev))
        elif g == "mon":
            if ev in ("sub.pause.send", "sub.pause.sent", "sub.resume.send"):
                out.append(_rec(g=g, ev=ev))
            elif ev == "mon.action":
                out.append(_rec(g=g, ev=ev, action=e.get("action", "")))
            elif ev == "mon.done":
                out.append(_rec(g=g, ev=ev, id=int(e.get("activeSubs", 0))))
            elif ev == "state":
                out.append(_rec(g=g, ev=ev, state=e.get("state", "")))
        elif g == "env":
            if ev == "fault":
                out.append(_rec(g=g, ev=ev, kind=e.get("kind", "")))
            elif ev in ("fault.end", "dial"):
                out.append(_rec(g=g, ev=ev))
    # the first subscription id of the model for app hooks: ids are assigned in call order
    n = 0
    for r in out:
        if r["g"] == app and r["ev"] == "call" and r["api"] == "subscribe" and r["okcall"]:
            n = r["id"]
        elif r["g"] == app and r["ev"] in APP_HOOKS:
            r["id"] = n
    return out
