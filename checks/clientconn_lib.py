# Helpers shared by the ClientConn family checks (C25, C26, C27).
import json
import random

APP_HOOKS = ("sub.resume.send", "sub.resume.sent", "forget.lock", "forget.locked", "sub.pause.send", "sub.pause.sent")
LOOP_HOOKS = ("sub.loop", "pub.send", "pub.lock", "pub.locked", "sub.pause.send", "sub.pause.sent")


def scripts_of(beh):
    """initial scripts of a generated behaviour (first history element)"""
    for s in beh["steps"]:
        if s["p"] == "init":
            return s["x"]
    return {}


def strip_init(beh):
    b = dict(beh)
    b["steps"] = [s for s in beh["steps"] if s["p"] != "init"]
    return b


def normalize_replay(trace, scripts, apps=("a1", "a2")):
    """hook events of one gated replay (up to the free-run marker) -> records for ClientConnTrace"""
    out = [{"g": "main", "ev": "reset", "arm": "", "api": "", "id": 0, "ndata": 0,
            "scripts": {a: list(scripts.get(a, [])) for a in apps}}]
    cur = {}
    started = False
    for e in trace or []:
        g, ev = e.get("g"), e.get("ev")
        if ev == "replay.start":
            started = True
            continue
        if ev == "replay.freerun":
            break
        if not started:
            continue
        rec = {"g": g, "ev": ev, "arm": e.get("arm", "") or "", "api": "", "id": 0,
               "ndata": int(e.get("ndata", 0) or 0), "scripts": {}}
        if g in apps:
            if ev == "call":
                cur[g] = (e["api"], e["id"])
            elif ev in ("return", "skip"):
                rec["api"], rec["id"] = e["api"], int(e.get("id", 0) or 0)
                out.append(rec)
            elif ev in APP_HOOKS:
                rec["api"], rec["id"] = cur.get(g, ("", 0))
                out.append(rec)
        elif g == "loop" and ev in LOOP_HOOKS:
            out.append(rec)
    return out


def features(beh):
    """situations of a behaviour that exercise the lock / signal interplay (used to choose what is replayed)"""
    f = set()
    insub = set()        # apps between SubCall and SubReg
    inhand = False       # the loop holds a publish response and has not taken the lock yet
    unknown = False
    for st in beh["steps"]:
        p, a, x = st["p"], st["a"], st.get("x")
        if a == "SubCall":
            insub.add(p)
        elif a == "SubReg":
            insub.discard(p)
        if p == "loop":
            if a in ("PubStart", "PubLock") and insub:
                f.add("loop-takes-submux-during-subscribe")
            if a == "PubResult" and isinstance(x, dict) and x.get("o") in ("data", "keepalive"):
                inhand = True
            if a == "PubLock":
                inhand = False
                if isinstance(x, dict) and x.get("known") is False:
                    unknown = True
                    f.add("response-for-unknown-subscription")
            if a == "Select" and x == "a.publish" and unknown:
                f.add("publish-after-unknown-subscription")
        elif p not in ("env", "mon", "init"):
            if inhand and a in ("FgLock", "SubReg"):
                f.add("call-takes-submux-while-response-in-hand")
            if unknown and a in ("FgLock", "SubReg", "SubCall"):
                f.add("call-after-unknown-subscription")
    return f


MON_ARMS = ("CreateSC", "RestoreSession", "RecreateSession", "Transfer", "RestoreSubs", "RecPause", "RecFinish", "Pause", "Done", "Resume")


def mon_features(beh):
    """where the application is while the monitor takes a step of its reconnect (and vice versa)"""
    f = set()
    appst = {}
    for st in beh["steps"]:
        p, a = st["p"], st["a"]
        if p in ("env", "init", "loop"):
            continue
        if p == "mon":
            if a in MON_ARMS:
                for app, where in appst.items():
                    if where != "idle":
                        f.add("%s@%s" % (where, a))
            continue
        appst[p] = {"SubCall": "subscribe-before-send", "SubSend": "subscribe-before-register", "SubReg": "idle", "SubCallErr": "idle",
                    "CancelCall": "cancel-before-lock", "CancelSkip": "idle", "FgLock": "cancel-holding-submux",
                    "FgDelete": "cancel-holding-submux" if appst.get(p) == "cancel-holding-submux" else "idle",
                    "FgPause": "cancel-holding-submux", "FgUnlock": "idle"}.get(a, appst.get(p, "idle"))
    # which reconnect path has to bring a registered subscription back (the publish loop must run again)
    reg, transferred = set(), False
    for st in beh["steps"]:
        p, a, x = st["p"], st["a"], st.get("x")
        if a == "SubReg":
            reg.add(x)
        elif a == "FgDelete":
            reg.discard(x)
        elif a == "Fault":
            transferred = False
        elif p == "mon" and a == "Transfer":
            transferred = True
        elif p == "mon" and a == "RestoreSubs" and reg:
            f.add("0-session-recreated-with-registered-subscription" if transferred else "0-session-restored-with-registered-subscription")
    return f


def pick_mon(rows, n, seed):
    """behaviours with a fault: cover the (application position, monitor step) pairs, restoreSubscriptions first"""
    rnd = random.Random(seed)
    rows = [b for b in rows if any(s["a"] == "Fault" for s in b["steps"]) and not b["stuck"]]
    rnd.shuffle(rows)
    rows.sort(key=lambda b: len(b["steps"]))
    feats = {id(b): mon_features(b) for b in rows}
    allf = sorted(set().union(*feats.values())) if rows else []
    allf.sort(key=lambda x: (0 if x.startswith("0-") else 1 if x.endswith("@RestoreSubs") else 2, x))
    chosen, covered = [], set()
    for ft in allf:
        if ft in covered or len(chosen) >= n:
            continue
        for b in rows:
            if b not in chosen and ft in feats[id(b)]:
                chosen.append(b)
                covered |= feats[id(b)]
                break
    rest = [b for b in rows if b not in chosen]
    return (chosen + rest)[:n], sorted(covered)


def pick_features(rows, n, seed):
    """seeded choice of n rows that covers every feature at least once where possible"""
    rnd = random.Random(seed)
    rows = list(rows)
    rnd.shuffle(rows)
    rows.sort(key=lambda b: len(b["steps"]))     # short ones first among equals (stable)
    chosen, covered = [], set()
    allf = set().union(*[features(b) for b in rows]) if rows else set()
    for ft in sorted(allf):
        if ft in covered:
            continue
        for b in rows:
            if b not in chosen and ft in features(b):
                chosen.append(b)
                covered |= features(b)
                break
    rest = [b for b in rows if b not in chosen]
    rnd.shuffle(rest)
    return (chosen + rest)[:max(n, len(chosen))], sorted(allf)


def pick(rows, n, seed, key=None):
    """seeded sample of n rows, keeping one of every distinct key first"""
    rnd = random.Random(seed)
    rows = list(rows)
    rnd.shuffle(rows)
    if key is None:
        return rows[:n]
    seen, first, rest = set(), [], []
    for r in rows:
        k = key(r)
        (rest if k in seen else first).append(r)
        seen.add(k)
    return (first + rest)[:n]


def stuck_index(out):
    import re
    m = re.search(r'STUCK (\d+)', out)
    return int(m.group(1)) if m else None


def _rec(**kw):
    r = {"g": "", "ev": "", "arm": "", "api": "", "id": 0, "okcall": 0, "state": "", "action": "", "kind": "",
         "ndata": 0, "sub": 0, "msub": 0, "seq": 0, "known": 1, "acks": [], "scripts": {}}
    r.update(kw)
    return r


def normalize_life(trace, nsub=0, app="a1"):
    """hook events of a free-running scenario -> records for ClientConnLife / AckObs"""
    tr = trace or []
    body = []
    started = False
    first_loop = True
    calls = []            # model script reconstructed from the call notes
    cur = ("", 0)
    registered = set()    # model ids currently registered (for cancel / recancel)
    sid_of = {}           # model id -> server id
    forgotten = set()     # server ids the client has forgotten
    for i, e in enumerate(tr):
        g, ev = e.get("g"), e.get("ev")
        if g == "loop" and first_loop:
            # the loop's first event (arm=pause, the signal of NewClient) is the synthetic record below,
            # wherever the goroutine got round to it
            first_loop = False
            if ev == "sub.loop" and e.get("arm") == "pause":
                continue
        if ev == "replay.start":
            started = True
            continue
        if not started:
            continue
        if g == app:
            if ev == "call" and e.get("api") == "subscribe":
                ok = 0
                for f in tr[i + 1:]:
                    if f.get("g") == app and f.get("ev") == "sub.resume.send":
                        ok = 1
                        break
                    if f.get("g") == app and f.get("ev") == "return":
                        break
                cur = ("subscribe", int(e.get("id", 0)))
                calls.append("sub")
                body.append(_rec(g=app, ev="call", api="subscribe", id=cur[1], okcall=ok))
            elif ev == "call" and e.get("api") == "cancel":
                cur = ("cancel", int(e.get("id", 0)))
                calls.append("cancel" if cur[1] in registered else "recancel")
                registered.discard(cur[1])
                body.append(_rec(g=app, ev="call", api="cancel", id=cur[1]))
            elif ev == "return" and e.get("api") == "subscribe":
                if e.get("err") in ("<nil>", "", None):
                    registered.add(int(e.get("id", 0)))
                    sid_of[int(e.get("id", 0))] = int(e.get("sid", 0) or 0)
                    forgotten.discard(int(e.get("sid", 0) or 0))
            elif ev in APP_HOOKS:
                if ev == "forget.locked":
                    forgotten.add(int(e.get("id", 0) or 0))
                body.append(_rec(g=app, ev=ev, api=cur[0], id=cur[1]))
            elif ev == "state" and e.get("state") == "Closed":
                body.append(_rec(g=app, ev="state", state="Closed"))
            elif ev == "closed":
                body.append(_rec(g=app, ev="closed"))
        elif g == "loop":
            if ev == "sub.loop":
                body.append(_rec(g=g, ev=ev, arm=e.get("arm", "")))
            elif ev == "pub.send":
                acks = [[int(a.get("SubscriptionID", 0)), int(a.get("SequenceNumber", 0))] for a in (e.get("acks") or [])]
                body.append(_rec(g=g, ev=ev, acks=acks))
            elif ev == "pub.lock":
                sub = int(e.get("sub", 0))
                msub = [m for m, sd in sid_of.items() if sd == sub and m in registered]
                body.append(_rec(g=g, ev=ev, sub=sub, msub=msub[-1] if msub else 0))
            elif ev == "pub.locked":
                sub = int(e.get("sub", 0))
                body.append(_rec(g=g, ev=ev, sub=sub, seq=int(e.get("seq", 0)), ndata=int(e.get("ndata", 0)),
                                 known=0 if sub in forgotten else 1))
            elif ev in ("sub.pause.send", "sub.pause.sent"):
                body.append(_rec(g=g, ev=ev))
        elif g == "mon":
            if ev in ("sub.pause.send", "sub.pause.sent", "sub.resume.send"):
                body.append(_rec(g=g, ev=ev))
            elif ev == "mon.action":
                if e.get("action") == "transferSubscriptions":
                    forgotten.clear()
                body.append(_rec(g=g, ev=ev, action=e.get("action", "")))
            elif ev == "mon.done":
                body.append(_rec(g=g, ev=ev, id=int(e.get("activeSubs", 0))))
            elif ev == "state":
                body.append(_rec(g=g, ev=ev, state=e.get("state", "")))
        elif g == "env":
            if ev == "fault":
                if e.get("kind") == "restart":
                    forgotten.clear()
                body.append(_rec(g=g, ev=ev, kind=e.get("kind", "")))
            elif ev in ("fault.end", "dial"):
                body.append(_rec(g=g, ev=ev))
    head = [_rec(g="main", ev="reset", scripts={app: calls + ["close"]}),
            _rec(g="loop", ev="sub.loop", arm="pause")]
    return head + body


SUPPORTED_AT = {"idle", "m.dial", "m.done", "m.psend", "m.psent", "m.rsend", "createSecureChannel", "restoreSession",
                "recreateSession", "transferSubscriptions", "restoreSubscriptions"}


def fault_rows(behs, seed=1, noauto=False):
    """distinct (script, fault sequence) rows of generated behaviours with the ends the model predicts"""
    rnd = random.Random(seed)
    rows = {}
    for b in behs:
        sc = scripts_of(b).get("a1", [])
        items = [{"k": f["k"], "at": f["at"]} for f in b["fseq"]]
        for n, it in enumerate(items):          # nothing is injected after Close
            if it["k"] == "close":
                items = items[:n + 1]
                break
        if not items or any(i["at"] not in SUPPORTED_AT for i in items):
            continue
        if b["stuck"] or b["lostresume"]:
            continue   # schedule-dependent ends are the business of C27
        key = json.dumps([sc, items])
        if key not in rows:
            for it in items:        # an outage refuses connections or lets them die on the OpenSecureChannel request
                if it["k"] == "outage":
                    it["how"] = rnd.choice(["refuse", "killopn"])
        r = rows.setdefault(key, {"script": [c for c in sc if c != "close"], "items": items, "lost": False, "closed": False,
                                  "noauto": noauto})
        r["lost"] = r["lost"] or bool(b["lost"])
        r["closed"] = r["closed"] or bool(b["closed"])
    return list(rows.values())


FAULT_EVENTS = ("data-acklost", "lose-kept", "lose-lost", "cut-kept", "cut-lost", "other-response", "publish-error")


def stream_situations(row):
    """(what came before, fault event) pairs of a SubSeq row"""
    out = set()
    ev = row["events"]
    for i, e in enumerate(ev):
        if e in FAULT_EVENTS:
            prev = "start" if i == 0 else (ev[i - 1] if ev[i - 1] in ("data", "keepalive", "other-response") else "fault")
            out.add(prev + ">" + e)
    return out


def pick_stream_rows(rows, n, seed):
    """seeded greedy cover of all situations, then filled up to n"""
    rnd = random.Random(seed)
    rows = [r for r in rows if stream_situations(r)]
    rnd.shuffle(rows)
    chosen, covered = [], set()
    while True:
        best, gain = None, 0
        for r in rows:
            g = len(stream_situations(r) - covered)
            if g > gain:
                best, gain = r, g
        if best is None:
            break
        chosen.append(best)
        covered |= stream_situations(best)
    rest = [r for r in rows if r not in chosen]
    return (chosen + rest)[:max(n, len(chosen))], sorted(covered)


def run_stream(run, vf, exe, gen):
    """C26: SubSeq rows on the real client against the scripted subscription server"""
    rows, sits = pick_stream_rows(gen.rows, run.pick(8, 60), run.seed)
    cases = []
    for i, r in enumerate(rows):
        cases.append({"id": "s%d" % i, "events": r["events"], "delivered": r["delivered"], "acked": sorted(r["acked"]),
                      "dead": bool(r["dead"]), "tries": 2})
    run.log("SubSeq: %d rows generated, %d situations, running %d rows" % (len(gen.rows), len(sits), len(cases)))
    results = run.go_run(exe, ["-mode", "stream", "-par", str(run.pick(10, 12))], cases=cases, timeout=run.pick(900, 3000))
    if len(results) != len(cases):
        raise vf.Inconclusive("harness returned %d results for %d stream rows" % (len(results), len(cases)))
    byid = {c["id"]: c for c in cases}
    traces = []
    for r in results:
        obs = r.get("obs") or {}
        tr = obs.pop("trace", None)
        c = byid.get(r["case"], {})
        for v in obs.get("violations", []):
            run.violation(v["key"], v["detail"], case={"events": c.get("events"), "specification_delivers": c.get("delivered")})
        if r["status"] == "violation":
            r["status"], r["key"], r["detail"] = "ok", None, None
        if r["status"] == "inconclusive" and "could not be driven" in (r.get("detail") or ""):
            run.notes.append("undriven stream row: %s" % (r.get("detail") or "")[:200])
            r["status"], r["class"], r["nontrivial"] = "ok", "", False
            run.cov["undriven"] = run.cov.get("undriven", 0) + 1
            tr = None
        if tr:
            recs = normalize_life(tr)
            traces.append((r["case"], "\n".join(json.dumps(x) for x in recs) + "\n", len(recs)))
    run.absorb(results)
    run.cov["stream_rows"] = len(cases)
    run.cov["stream_situations"] = sits
    return traces, byid


def run_faults(run, vf, prop):
    """common body of C25 / C26"""
    import re
    q = run.quick()
    exe = [None]
    jobs = [
        lambda: run.tlc("ClientConn", "ClientConnMC", "C25_contract_quick.cfg" if q else "C25_contract.cfg", timeout=3000,
                        workers=4 if q else 12,
                        label="contract: documented transitions, Closed after Close, no dial after Close, subscriptions survive, acks once"),
        lambda: run.tlc("ClientConn", "ClientConnMC", "C25_gen.cfg", mode="gen", count=False, timeout=3000,
                        simulate=run.pick(200, 3000), depth=150, label="as-is model: seeded sample of fault scenarios"),
        lambda: exe.__setitem__(0, run.go_build("clientconn")),
        lambda: run.tlc("ClientConn", "ClientConnMC", "C25_gen_outage.cfg", mode="gen", count=False, timeout=3000,
                        label="as-is model: every scenario around one outage (end / Close at each injection point)"),
    ]
    if prop == "C25":
        jobs.append(lambda: run.tlc("ClientConn", "ClientConnMC", "C25_dev_armclose.cfg", expect="violation", count=False, timeout=1500, workers=2,
                                    label="deviation demo: reconnect arm ignores Close -> Closed->Reconnecting"))
        jobs.append(lambda: run.tlc("ClientConn", "ClientConnMC", "C25_dev_drain.cfg", expect="violation", count=False, timeout=1500, workers=2,
                                    label="deviation demo: sechanErr drained after the last arm -> Connected on a dead channel"))
        jobs.append(lambda: run.tlc("ClientConn", "ClientConnMC", "C25_gen_noauto.cfg", mode="gen", count=False, timeout=1500,
                                    simulate=run.pick(40, 300), depth=100, label="as-is model, AutoReconnect off: fault scenarios"))
    else:
        jobs.append(lambda: run.tlc("ClientConn", "ClientConnMC", "C26_dev_restore.cfg", expect="violation", count=False, timeout=1500, workers=2,
                                    label="deviation demo: restored session does not resume -> InvSubsSurvive"))
        jobs.append(lambda: run.tlc("ClientConn", "SubSeq", "SubSeq_gen.cfg" if q else "SubSeq_gen_thorough.cfg", mode="gen", count=False,
                                    timeout=1500, label="SubSeq as-is: every scenario row with what the application must receive"))
        jobs.append(lambda: run.tlc("ClientConn", "SubSeq", "SubSeq_contract.cfg" if q else "SubSeq_contract_thorough.cfg", timeout=1500, workers=2,
                                    label="SubSeq contract: exactly-once delivery and acknowledgement across reconnects"))
        for cfg, what in (("SubSeq_dev_keepalive.cfg", "keep-alive advances nextSeq -> notification skipped by Republish"),
                          ("SubSeq_dev_transfer.cfg", "transferred subscription with empty queue not resumed"),
                          ("SubSeq_dev_noack.cfg", "republished notifications never acknowledged"),
                          ("SubSeq_dev_unknownsub.cfg", "response for a forgotten subscription leaves the acknowledgements pending")):
            jobs.append(lambda cfg=cfg, what=what: run.tlc("ClientConn", "SubSeq", cfg, expect="violation", count=False, timeout=1500, workers=1,
                                                           label="deviation demo: " + what))
    res = run.parallel(*jobs)
    rows = fault_rows(res[1].rows, run.seed)
    nrestart = lambda r: sum(1 for i in r["items"] if i["k"] == "restart")
    if prop == "C26":
        rows = [r for r in rows if r["script"]]
    kinds = lambda r: json.dumps(sorted({(i["k"], i["at"], i.get("how", "")) for i in r["items"]})) + str(len(r["script"]))
    n = run.pick(7, 60)
    # always: one scenario with two re-creations (two restarts) and one with dial attempts that die on OpenSecureChannel
    def dial_fails(r):      # an outage during which the monitor dials at least once (the end arrives in the dial loop)
        return any(i["k"] == "end" and i["at"] == "m.dial" for i in r["items"]) and not r["closed"]
    kill = pick([r for r in rows if dial_fails(r)], 1, run.seed)
    for r in kill:          # ... and the connection dies on the OpenSecureChannel request
        for i in r["items"]:
            if i["k"] == "outage":
                i["how"] = "killopn"
    must = pick([r for r in rows if nrestart(r) >= 2 and r["script"] and not r["closed"]], 1, run.seed) + kill
    # always: an outage of at least three reconnect intervals (the dial counter must keep growing, Connected again
    # afterwards) and, for C25, Close() inside such an outage after failed dials (state Reconnecting)
    orows = fault_rows(res[3].rows, run.seed)
    shape = lambda r: [(i["k"], i["at"]) for i in r["items"]]
    long_outage = [r for r in orows if shape(r) == [("outage", "idle"), ("end", "m.dial")] and r["script"]]
    close_in_outage = [r for r in orows if shape(r) == [("outage", "idle"), ("close", "m.dial")]]
    for r in long_outage + close_in_outage:
        r["items"][0]["how"] = "refuse"
    must += pick(long_outage, 1, run.seed)
    if prop == "C25":
        must += pick(close_in_outage, 1, run.seed)
        # always: Close() while the monitor has entered a reconnect arm (nothing but Closed may be reported afterwards)
        arm = lambda r, arms: r["items"] and r["items"][-1]["k"] == "close" and r["items"][-1]["at"] in arms
        must += pick([r for r in orows + rows if arm(r, ("createSecureChannel", "restoreSession", "recreateSession"))], 1, run.seed)
        must += pick([r for r in orows + rows if arm(r, ("restoreSubscriptions",)) and r["script"]], 1, run.seed)
    rows += [r for r in orows if r not in rows]
    sel = must + [r for r in pick(rows, n, run.seed, key=kinds) if r not in must][:max(0, n - len(must))]
    if prop == "C25":
        na = fault_rows(res[6].rows, run.seed, noauto=True)
        na = [r for r in na if len(r["items"]) == 1 or r["items"][-1]["k"] == "close"]
        sel += pick(na, run.pick(2, 8), run.seed, key=kinds)
    else:
        # no fault at all: cancel and subscribe again while notifications (and acknowledgements) flow
        sel += [{"script": ["sub", "sub", "churn"], "items": [], "lost": False, "closed": False, "noauto": False}] * run.pick(1, 4)
    cases = []
    for i, r in enumerate(sel):
        cases.append({"id": "f%d" % i, "script": r["script"], "items": r["items"], "tries": 2, "noauto": bool(r.get("noauto")),
                      "model_lost": r["lost"], "model_closed": r["closed"]})
    run.log("TLC: %d sampled behaviours -> %d distinct fault scenarios, running %d" % (len(res[1].rows), len(rows), len(cases)))
    if not cases:
        raise vf.Inconclusive("no fault scenario generated")
    stream_out = [None]
    both = [lambda: run.go_run(exe[0], ["-mode", "faults", "-par", str(run.pick(10, 12))], cases=cases, timeout=run.pick(1200, 3300))]
    if prop == "C26":
        both.append(lambda: stream_out.__setitem__(0, run_stream(run, vf, exe[0], res[5])))
    results = run.parallel(*both)[0]
    if len(results) != len(cases):
        raise vf.Inconclusive("harness returned %d results for %d cases" % (len(results), len(cases)))
    byid = {c["id"]: c for c in cases}
    traces = []
    for r in results:
        obs = r.get("obs") or {}
        tr = obs.pop("trace", None)
        c = byid.get(r["case"], {})
        mine = [v for v in obs.get("violations", []) if v["property"] == prop]
        if r["status"] == "violation":
            r["status"] = "ok"
            r["key"] = r["detail"] = None
        if r["status"] == "inconclusive" and "could not be driven" in (r.get("detail") or ""):
            run.notes.append("undriven: %s" % (r.get("detail") or "")[:200])
            r["status"], r["class"], r["nontrivial"] = "ok", "", False
            run.cov["undriven"] = run.cov.get("undriven", 0) + 1
            tr = None
        for v in mine:
            run.violation(v["key"], v["detail"], case={"script": c.get("script"), "items": c.get("items"), "noauto": c.get("noauto")})
        if tr and r["status"] == "ok":
            recs = normalize_life(tr)
            traces.append((r["case"], "\n".join(json.dumps(x) for x in recs) + "\n", len(recs)))
    run.absorb(results)
    ack_only = stream_out[0][0] if stream_out[0] else []
    if stream_out[0]:
        for k, v in stream_out[0][1].items():      # stream rows are reported with their events
            byid.setdefault(k, {"script": ["stream row"], "items": v.get("events")})
    if run.cov.get("undriven", 0) * 3 > 2 * len(cases):
        raise vf.Inconclusive("%d of %d scenarios could not be driven" % (run.cov["undriven"], len(cases)))

    def report(what, k, rest, case):
        if prop == "C25" and what == "UNDOC":
            a, b = rest.split()
            run.violation("undocumented-transition-%s-to-%s" % (a, b),
                          "the client reported ConnState %s directly after %s (scenario %s)" % (b, a, json.dumps(case)), case=case)
        elif prop == "C25" and what == "AFTERCLOSE":
            run.violation("after-close-" + rest.replace(" ", "-"),
                          "after Close returned the client still reported/attempted: %s (scenario %s)" % (rest, json.dumps(case)), case=case)
        elif prop == "C26" and what == "ACKTWICE":
            run.violation("acknowledgement-repeated-after-answered-request",
                          "sub/seq %s acknowledged again although a PublishRequest carrying it was answered (scenario %s)" % (rest, json.dumps(case)), case=case)
        elif prop == "C26" and what == "ACKMISSING":
            run.violation("acknowledgement-missing-in-next-publish-request",
                          "sub/seq %s not acknowledged with the next PublishRequest (scenario %s)" % (rest, json.dumps(case)), case=case)

    # one TLC run per scenario (all in parallel): a trace the specification cannot explain must not hide the others
    def validate(t):
        cid, text, n = t
        cfgs = ["ClientConnLife_noauto.cfg"] if byid[cid].get("noauto") else ["ClientConnLife.cfg"]
        r = None
        for cfg in cfgs:
            try:
                r = run.tlc("ClientConn", "ClientConnLife", cfg, mode="trace", files={"trace.ndjson": text}, deque=True, count=True,
                            timeout=run.pick(150, 600), label="trace validation of scenario %s (%d events) %s" % (cid, n, cfg))
            except vf.Inconclusive as ex:       # time-out of the search: not explained within the budget
                r = vf.TlcResult()
                r.out = "STUCK 0 (%s)" % ex
            if r.ok:
                break
        return cid, text, r

    def ackobs():
        text = "".join(t[1] for t in traces + ack_only)
        return run.tlc("ClientConn", "AckObs", "AckObs.cfg", mode="trace", files={"trace.ndjson": text}, count=True, timeout=1500,
                       label="acknowledgement observer over %d traces" % len(traces))
    def stateobs():
        text = "".join(t[1] for t in traces)
        return run.tlc("ClientConn", "StateObs", "StateObs.cfg", mode="trace", files={"trace.ndjson": text}, count=True, timeout=1500,
                       label="state observer (documented transitions, nothing after Close) over %d traces" % len(traces))
    thunks = [(lambda t=t: validate(t)) for t in traces]
    if prop == "C26" and (traces or ack_only):
        thunks.append(ackobs)
    if prop == "C25" and traces:
        thunks.append(stateobs)
    out = []
    step = 12
    for k in range(0, len(thunks), step):
        out += run.parallel(*thunks[k:k + step])
    unexplained = 0
    for o in out:
        if not isinstance(o, tuple):
            # AckObs: deterministic observer, one batch; map the event index back to its scenario
            if not o.ok:
                run.save_text("tlc-observer.out", o.out)
                raise vf.Inconclusive("observer did not run: %s" % (o.error or o.violated,))
            spans, a = [], 1
            for cid, text, n in (traces + ack_only if prop == "C26" else traces):
                spans.append((a, a + n - 1, cid))
                a += n
            seen = set()
            for m in re.finditer(r'"(ACKTWICE|ACKMISSING|UNDOC|AFTERCLOSE) (\d+) ([^"]*)"', o.out):
                what, k, rest = m.group(1), int(m.group(2)), m.group(3)
                if (what, k, rest) in seen:
                    continue
                seen.add((what, k, rest))
                cid = next((c for x, y, c in spans if x <= k <= y), None)
                c = byid.get(cid, {})
                report(what, k, rest, {"scenario": cid, "script": c.get("script"), "items": c.get("items"), "event": k})
            run.cov["ack_traces_observed"] = len(traces)
            continue
        cid, text, tv = o
        c = byid[cid]
        seen = set()
        if tv.ok:
            run.cov["traces_validated_against_impl"] += 1
        elif "STUCK" in tv.out:
            # The free-running trace is not explained by the as-is model.  Known gap: status errors that
            # reach sechanErr outside a reconnect are not modelled.  Logged, counted, not a verdict.
            unexplained += 1
            k = stuck_index(tv.out)
            run.save_text("trace-unexplained-%s.ndjson" % cid, text)
            run.notes.append("scenario %s %s: trace not explained from event %s on" % (cid, json.dumps(c.get("items")), k))
        else:
            run.save_text("tlc-life-%s.out" % cid, tv.out)
            raise vf.Inconclusive("trace validation did not run: %s" % (tv.error,))
    run.cov["traces_unexplained"] = unexplained
    # (a run in which the real client violated the property keeps its verdict: the same deviation usually
    # also makes the traces unexplainable)
    if traces and unexplained * 2 > len(traces) and not run.violations:
        raise vf.Inconclusive("%d of %d recorded traces are not explained by the specification" % (unexplained, len(traces)))
    run.cov["rule"] = ("one case per distinct (subscribe calls, fault sequence with injection points and outage flavour, Close point, "
                       "auto-reconnect) generated by TLC from the as-is model; class = that tuple")
    run.cov["scenarios_generated"] = len(rows)
    run.assumptions += [
        "back to Connected within 40 s after the last fault (ReconnectInterval 100 ms); every monitored item (2 per subscription, different TimestampsToReturn) delivers again within 12 s (values change every 40 ms); the wait ends early when the publish loop sits in its paused select with empty signal channels and an idle monitor",
        "after Close: state and connection attempts observed for 1.5 s (15 reconnect intervals), goroutines polled for 15 s",
        "peer is the real gopcua server in a child process: restart = session and subscription loss, reset/outage = session kept; an outage either refuses connections or lets them die on the OpenSecureChannel request; TransferSubscriptions/Republish unsupported",
        "faults are injected after the Subscribe calls returned; injection points are steady state and the monitor's hook points",
    ]
