# C36 -- client, channel and server are free of data races.
#
# TLA+ cannot decide a data race (a property of Go memory accesses that the models abstract
# away).  What the specifications contribute is the schedule space: the drivers of the
# concurrent scenarios named by the property (C11, C16, C18, C19, C25-C29, C34) replay
# TLC-generated behaviours / forced interleavings on the real code.  This check rebuilds those
# drivers with the Go race detector (-race) and runs their workloads; every process of a
# workload (children included) writes its reports to GORACE log_path.  Each report is keyed by
# the unordered pair of the innermost gopcua frames of the two conflicting accesses and matched
# against known-findings.txt.  The verdicts of the workloads for their own properties are
# ignored here (timing oracles are not meaningful under the race detector's slowdown).
import glob
import os
import re
import subprocess
import time

import vf

QUICK = "C18 C19 C34 C25 C28 C26"
ALL = "C18 C11 C19 C16 C34 C28 C27 C25 C26 C29"


def frames(block):
    """Return the innermost gopcua frame 'func file:line' of one stack of a race report."""
    lines = block.splitlines()
    for i in range(len(lines) - 1):
        fn = lines[i].strip()
        loc = lines[i + 1].strip()
        if "github.com/gopcua/opcua" in fn or loc.startswith("/repo/") or "/opcua/" in loc:
            m = re.match(r"(\S+?):(\d+)", loc)
            if not m:
                continue
            path = m.group(1)
            # normalise the path to the repository-relative file
            path = re.sub(r"^.*?/(?=(uasc|uacp|ua|uapolicy|server|monitor|errors|stats|debug)/)", "", path)
            if path.startswith("/"):
                path = os.path.basename(path)
            if "verif_on.go" in path or "verif_ptr.go" in path:
                continue  # the instrumentation itself is never the finding
            f = re.sub(r"\(\)$", "", fn).replace("github.com/gopcua/opcua/", "").replace("github.com/gopcua/opcua.", "opcua.")
            f = re.sub(r"\.func\d+(\.\d+)*$", "", f)
            return "%s@%s:%s" % (f, path, m.group(2))
    return None


def allfuncs(block):
    """All gopcua function names appearing in one stack of a race report."""
    res = []
    for line in block.splitlines():
        fn = line.strip()
        if fn.startswith("github.com/gopcua/opcua") and fn.endswith(")"):
            f = re.sub(r"\(\)$", "", fn.split(" ")[0]).replace("github.com/gopcua/opcua/", "").replace("github.com/gopcua/opcua.", "opcua.")
            res.append(re.sub(r"\.func\d+(\.\d+)*$", "", f))
    return res


# Root causes that produce many different pairs of access sites (which pair is reported depends on
# the policy, the seed and the schedule).  A report is attributed to a root cause only when BOTH
# conflicting stacks lie in the code regions named here; every other race keeps its own key (the
# pair of innermost gopcua functions), so a race anywhere else is still a new violation.
ROOT_CAUSES = [
    ("race:server-channel-rekeys-its-active-instance-in-place",
     ["uasc.(*SecureChannel).handleOpenSecureChannelRequest", "uasc.(*SecureChannel).readChunk"],
     ["uasc.(*channelInstance).signAndEncrypt", "uasc.(*SecureChannel).writeMessageChunks",
      "uasc.(*channelInstance).newMessage", "uasc.(*channelInstance).verifyAndDecrypt"]),
    ("race:server-node-attributes-unsynchronised",
     ["server.(*Node).SetAttribute"],
     ["server.(*Node).Attribute", "server.(*NodeNameSpace).Attribute", "server.(*Node).SetAttribute",
      "server.(*Node).Value", "server.(*MonitoredItemService).ChangeNotification",
      "ua.(*DataValue).Encode", "ua.(*Variant).Encode"]),
    ("race:client-opening-instance-read-by-dispatcher-while-open-writes",
     ["uasc.(*SecureChannel).open"],
     ["uasc.(*SecureChannel).readChunk"]),
    ("race:client-connection-replaced-by-reconnect-dial-during-close",
     ["opcua.(*Client).Close"],
     ["opcua.(*Client).Dial", "opcua.(*Client).monitor"]),
]


def root_cause(fa, fb):
    for key, left, right in ROOT_CAUSES:
        for x, y in ((fa, fb), (fb, fa)):
            if any(f in left for f in x) and any(f in right for f in y):
                return key
    # a node value written by the application (no gopcua frame besides value constructors) and
    # encoded by the server's dispatcher without synchronisation: same root cause as the
    # unsynchronised node attributes
    for x, y in ((fa, fb), (fb, fa)):
        if "server.(*Server).handleService" in x and \
                any(f in ("ua.(*DataValue).Encode", "ua.(*Variant).Encode") for f in x) and \
                all(f.startswith("ua.New") or f.startswith("ua.Must") for f in y):
            return "race:server-node-attributes-unsynchronised"
    return None


def parse_reports(text):
    res = []
    for rep in re.split(r"={18}\n", text):
        if "WARNING: DATA RACE" not in rep:
            continue
        parts = re.split(r"\n(?=Previous (?:read|write)|Goroutine \d+ \()", rep)
        acc = [p for p in parts if re.match(r"(WARNING: DATA RACE\n)?(Read|Write|Previous read|Previous write)", p.strip())]
        if len(acc) < 2:
            acc = parts[:2]
        a, b = frames(acc[0]), frames(acc[1]) if len(acc) > 1 else None
        if not a and not b:
            continue   # race entirely inside the harness or the runtime: not gopcua's
        pair = sorted([a or "harness", b or "harness"])
        key = root_cause(allfuncs(acc[0]), allfuncs(acc[1]) if len(acc) > 1 else []) or \
            "race:" + "|".join(re.sub(r":\d+$", "", x) for x in pair)
        res.append({"key": key, "sites": pair, "report": rep[:3000]})
    return res


def body(run):
    run.level = "exploration"
    q = run.quick()
    racedir = run.tmp("race")
    os.makedirs(racedir, exist_ok=True)
    env = dict(os.environ, VERIF_RACE="1", VERIF_RACE_DIR=racedir, VERIF_NO_EVIDENCE="1",
               VERIF_TIER="quick", VERIF_SEED=str(run.seed))
    ran = []
    seeds = [run.seed] if q else [run.seed + i for i in range(3)]
    workloads = os.environ.get("VERIF_C36_WORKLOADS", QUICK if q else ALL).split()

    def one(job):
        wid, sd = job
        e = dict(env, VERIF_SEED=str(sd))
        t0 = time.time()
        try:
            p = subprocess.run([os.path.join(vf.VERIF, "bin", "check"), wid, "--tier", "quick"],
                               env=e, stdout=subprocess.PIPE, stderr=subprocess.STDOUT, text=True,
                               timeout=2400, cwd=vf.VERIF)
            rc, out = p.returncode, p.stdout
        except subprocess.TimeoutExpired:
            rc, out = -9, "timeout"
        m = re.search(r"evaluations=(\d+)", out or "")
        run.log("workload %s seed %d under -race: exit %d in %.0fs" % (wid, sd, rc, time.time() - t0))
        return {"workload": wid, "seed": sd, "exit": rc, "wall_s": round(time.time() - t0, 1),
                "evaluations": int(m.group(1)) if m else 0}

    jobs = [(w, sd) for w in workloads for sd in seeds
            if os.path.exists(os.path.join(vf.VERIF, "checks", w + ".py"))]
    import concurrent.futures as cf
    with cf.ThreadPoolExecutor(max_workers=6) as ex:
        ran = list(ex.map(one, jobs))
    if not [r for r in ran if r["evaluations"] > 0]:
        raise vf.Inconclusive("no workload could be run under the race detector")
    reports = []
    for f in sorted(glob.glob(os.path.join(racedir, "race.*"))):
        reports += parse_reports(open(f, errors="replace").read())
    bykey = {}
    for r in reports:
        bykey.setdefault(r["key"], []).append(r)
    for k, rs in sorted(bykey.items()):
        run.violation(k, "%d report(s); sites %s\n%s" % (len(rs), rs[0]["sites"], rs[0]["report"][:1500]),
                      case={"sites": rs[0]["sites"]})
    run.cov["evaluations"] = sum(r["evaluations"] for r in ran)
    run.cov["distinct_nontrivial"] = len([r for r in ran if r["evaluations"] > 0])
    run.cov["rule"] = ("one evaluation = one case replayed by a concurrent-scenario driver rebuilt with -race; "
                       "distinct = workloads (property drivers x seeds) that ran to completion under the race detector")
    run.cov["samples"] = ran[:12]
    run.cov["race_reports"] = len(reports)
    run.cov["distinct_race_pairs"] = sorted(bykey)
    run.cov["explanation"] = ("The Go race detector is the oracle the property names; TLA+ supplies the schedules "
                              "(TLC-generated behaviours and forced interleavings of the C11/C16/C18/C19/C25-C29/C34 drivers).")
    run.assumptions += ["a race is attributed to gopcua only if at least one of the two access stacks has a gopcua frame",
                        "reports are keyed by function+file of the two innermost gopcua frames (line numbers dropped)"]


vf.main(body, "C36", level="exploration")
