# C32 -- subscription and monitored item ids are unique and session-scoped.
# spec/ServerCore (InvIdsFresh, InvOwnerOnly): TLC proves the contract, shows id reuse and an
# effective foreign SetMonitoringMode violate it, and draws seeded create/delete histories of
# two sessions (including unknown and foreign ids) from the model.  The ids the real server
# returns and the privileged snapshots of its tables are bound into a trace that TLC validates
# against ServerCoreTrace: an id that is still in use, or a foreign delete / mode change that
# takes effect, is only accepted through a named deviation.
import vf
import servercore_common as sc


def body(run):
    sc.core_check(
        run, "C32", [("ServerCoreGen_ids.cfg", run.pick(8, 150), 7),
                     # every successful create/delete history of 6 requests of one session (id freshness patterns)
                     ("ServerCoreGen_freshsub.cfg", None, None), ("ServerCoreGen_freshitem.cfg", None, None),
                     # ONE request with 2 / 3 (thorough: 4) distinct ids in every order of own / foreign / never-issued
                     ("ServerCoreGen_batch2.cfg", None, None), ("ServerCoreGen_batch3.cfg", None, None)]
        + ([] if run.quick() else [("ServerCoreGen_batch4.cfg", None, None)]),
        mc_cfgs=[(run.pick("ServerCore_mc_ids_q.cfg", "ServerCore_mc.cfg"),
                  "contract: session, id and owner invariants on 2 sessions (thorough: + null caller)")],
        dev_cfgs=[("ServerCore_dev_subid-reuse.cfg", "deviation demo: subscription id reused while in use"),
                  ("ServerCore_dev_setmode-foreign-effective.cfg", "deviation demo: foreign SetMonitoringMode takes effect")],
        max_deaths=run.pick(8, 40))
    run.cov["rule"] = ("seeded histories of 6 create/delete/set-mode requests by two activated sessions drawn by TLC's "
                       "simulator from the contract model, plus every successful create/delete history of 6 requests of one session "
                       "(subscriptions; items), plus batch requests (DeleteSubscriptions / DeleteMonitoredItems / SetMonitoringMode "
                       "with 2-4 distinct ids of s1, s2 and nobody in every order); class = the request sequence")
    run.assumptions += [
        "ids 'in use' = ids present in SubscriptionService.Subs / MonitoredItemService.Items (privileged listing after "
        "the tables were quiescent for 40 ms)",
        "publishing interval 1 h so that no subscription expires during a history",
    ]


vf.main(body, "C32", design_ref="S10/C32")
