# Family T -- trace validation of the repository's OWN tests (spec/ChanTrace).
#
# The repository has an optional file tracer (uasc/verif_trace.go, build tag verif): with VERIF_TRACE set,
# every test process appends one JSON object per chunk-level event of every secure channel.  This module
#   (a) runs the repository's test packages that open secure channels with -tags verif and VERIF_TRACE
#       pointing into the run's scratch directory (cwd = the tree under test, nothing is written into it),
#       one package at a time, with retries when a fixed test port is taken;
#   (b) splits the events per process / connection / side / direction, orders each stream by "ord" and
#       converts it into the records spec/ChanTrace/ChanTrace.tla reads (32-bit numbers as 16-bit halves,
#       ids renamed to small integers); receive streams whose peer channel ran in the same process are
#       annotated with the sender's view of every chunk (part / n / message);
#   (c) lets TLC validate all streams of one direction in one run (batch idiom, POSTCONDITION acceptance);
#   (d) reports a rejected stream as violation `repo-test-trace-rejected:<send|recv>:<package>` with the
#       offending event and the last accepted events; accepted streams count into
#       run.cov["traces_validated_against_impl"].
# `validate(run, side)` is called by the thorough tier of checks/C11.py (send) and checks/C10.py (recv).
# Standalone (debugging, not a manifest check):
#     python3 checks/repotrace.py [--side send|recv|both] [--keep DIR] [--from DIR] [--contract] [--selftest]
import fcntl
import glob
import json
import os
import re
import subprocess
import sys
import time

sys.path.insert(0, os.path.join(os.path.dirname(os.path.dirname(os.path.abspath(__file__))), "lib"))
import vf  # noqa: E402

# (package, build tags).  ./tests/go keeps its tests behind the tag "integration" (make selfintegration:
# the gopcua client against the gopcua server); ./uasc does not build with that tag.
PACKAGES = [
    ("./uasc", "verif"),
    (".", "verif"),
    ("./tests/go", "verif,integration"),
    ("./examples/browse", "verif"),
    ("./monitor", "verif"),
]
SEND_EVENTS = {"chunk.write", "open.copied", "open.installed", "srv.opn.end"}
RECV_EVENTS = {"recv.chunk"}
MAX_REJECTED = 8          # rejected streams examined one by one (each costs one more TLC run)
LOCK = "/tmp/verif-repotrace-port4840.lock"


def pkg_name(p):
    return "root" if p == "." else p[2:]


# ---------------------------------------------------------------------------------- (a) record
def record(run, outdir, packages=None):
    """Run the repository's test packages with the file tracer; returns {package: info}."""
    info = {}
    os.makedirs(outdir, exist_ok=True)
    lock = open(LOCK, "a+")
    t0 = time.time()
    fcntl.flock(lock, fcntl.LOCK_EX)      # several checks may call this at the same time: the tests bind port 4840
    try:
        for pkg, tags in packages or PACKAGES:
            name = pkg_name(pkg)
            if not os.path.isdir(os.path.join(vf.REPO, pkg)):
                continue
            d = os.path.join(outdir, re.sub(r"[^A-Za-z0-9]", "_", name))
            out, rc, tries = "", None, 0
            for attempt in range(5):
                tries += 1
                for f in glob.glob(os.path.join(d, "*")):
                    os.unlink(f)
                os.makedirs(d, exist_ok=True)
                env = vf.goenv()
                env["VERIF_TRACE"] = os.path.join(d, "tr-%d.ndjson")
                cmd = ["go", "test", "-tags", tags, "-vet=off", "-count=1", pkg]
                try:
                    p = subprocess.run(cmd, cwd=vf.REPO, env=env, stdout=subprocess.PIPE, stderr=subprocess.STDOUT,
                                       timeout=900, text=True, errors="replace")
                    out, rc = p.stdout, p.returncode
                except subprocess.TimeoutExpired as e:
                    out = e.stdout if isinstance(e.stdout, str) else (e.stdout or b"").decode("utf-8", "replace")
                    rc = -1
                if "address already in use" in out or "bind:" in out:
                    time.sleep(3 + 4 * attempt)
                    continue
                break
            files = sorted(glob.glob(os.path.join(d, "tr-*.ndjson")))
            info[name] = {"tags": tags, "exit": rc, "tries": tries, "files": files,
                          "no_tests": "no test files" in out, "build_failed": "[build failed]" in out or "[setup failed]" in out,
                          "tail": out[-1500:]}
            run.log("repo tests %-16s exit=%s tries=%d trace files=%d" % (name, rc, tries, len(files)))
    finally:
        fcntl.flock(lock, fcntl.LOCK_UN)
        lock.close()
    run.log("repo tests recorded in %.0f s" % (time.time() - t0))
    return info


# ---------------------------------------------------------------------------------- (b) split / convert
def load_events(path):
    evs = []
    for line in open(path, errors="replace"):
        line = line.strip()
        if not line:
            continue
        try:
            evs.append(json.loads(line))
        except ValueError:
            pass           # a line cut off when the test process ended
    return evs


def split(events):
    """-> {(conn, srv, 'send'|'recv'): [events ordered by ord]}"""
    st = {}
    for e in events:
        if e.get("ev") in SEND_EVENTS:
            d = "send"
        elif e.get("ev") in RECV_EVENTS:
            d = "recv"
        else:
            continue
        st.setdefault((e.get("conn"), bool(e.get("srv")), d), []).append(e)
    for k in st:
        st[k].sort(key=lambda e: e["ord"])
    return st


def halves(n):
    n &= 0xFFFFFFFF
    return n >> 16, n & 0xFFFF


def match_sender(recv, send):
    """The chunks a channel accepted are, in order, chunks its peer wrote before (a refused chunk is simply
    missing).  Returns the list of the matching chunk.write events, or None."""
    chunks = [e for e in send if e["ev"] == "chunk.write"]
    out, j = [], 0
    for r in recv:
        while j < len(chunks):
            c = chunks[j]
            j += 1
            if c["ord"] > r["ord"]:
                return None
            if c["seq"] == r["seq"] and c["req"] == r["req"] and c.get("type") == r.get("type") and c.get("chan") == r.get("chan"):
                out.append(c)
                break
        else:
            return None
    return out


def annotate(streams):
    """For every receive stream find the send stream of the peer channel (same process, other side):
    adds _part/_n/_msg (the sender's chunk index + 1, chunk count, ordinal of the message) to its events."""
    paired = {}
    sends = {k: v for k, v in streams.items() if k[2] == "send"}
    msgno = {}
    for k, v in sends.items():
        m = 0
        for e in v:
            if e["ev"] == "chunk.write":
                if e["i"] == 0:
                    m += 1
                msgno[id(e)] = m
    for k, recv in streams.items():
        if k[2] != "recv":
            continue
        cands = []
        for ks, send in sends.items():
            if ks[1] == k[1]:
                continue
            mt = match_sender(recv, send)
            if mt is not None:
                cands.append((ks, mt))
        if len(cands) != 1:
            paired[k] = None
            continue
        ks, mt = cands[0]
        paired[k] = ks
        for r, c in zip(recv, mt):
            r["_part"], r["_n"], r["_msg"] = c["i"] + 1, c["n"], msgno[id(c)]
    return paired


def convert(direction, events):
    """One stream -> records of ChanTrace (without the reset record)."""
    recs, cts, reqs = [], {}, {}

    def ct(e):
        return cts.setdefault((e.get("chan"), e.get("tok")), len(cts) + 1)

    def rq(e):
        return reqs.setdefault(e.get("req"), len(reqs) + 1)

    for e in events:
        ev = e["ev"]
        if ev == "chunk.write":
            hi, lo = halves(e["seq"])
            recs.append({"ev": "write", "hi": hi, "lo": lo, "req": rq(e), "i": e["i"], "n": e["n"], "ct": ct(e),
                         "type": e.get("type", "?")})
        elif ev in ("open.installed", "srv.opn.end"):
            recs.append({"ev": "install", "ct": ct(e)})
        elif ev == "open.copied":
            hi, lo = halves(e["seq"])
            recs.append({"ev": "copied", "hi": hi, "lo": lo, "renew": bool(e.get("renew"))})
        elif ev == "recv.chunk":
            hi, lo = halves(e["seq"])
            recs.append({"ev": "recv", "hi": hi, "lo": lo, "req": rq(e), "kind": e.get("kind", "?"), "type": e.get("type", "?"),
                         "part": e.get("_part", 0), "n": e.get("_n", 0), "msg": e.get("_msg", 0)})
    return recs


def collect(info, side):
    """All streams of direction `side` of all recorded packages: list of dicts
    {pkg, file, conn, srv, side, events (raw), recs, paired}"""
    out = []
    for pkg, inf in info.items():
        for f in inf["files"]:
            streams = split(load_events(f))
            paired = annotate(streams) if side == "recv" else {}
            for (conn, srv, d), evs in sorted(streams.items(), key=lambda kv: (kv[0][0] or 0, kv[0][1], kv[0][2])):
                if d != side:
                    continue
                out.append({"pkg": pkg, "file": os.path.basename(f), "conn": conn, "srv": srv, "side": d, "events": evs,
                            "recs": convert(d, evs), "paired": paired.get((conn, srv, d)) is not None})
    return out


def batch_text(streams):
    """-> (text of trace.ndjson, [(stream index, event index or -1)] per line)"""
    lines, where = [], []
    for k, s in enumerate(streams):
        lines.append(json.dumps({"ev": "reset", "tr": k, "side": s["side"]}))
        where.append((k, -1))
        for j, r in enumerate(s["recs"]):
            r = dict(r)
            r["tr"] = k
            lines.append(json.dumps(r))
            where.append((k, j))
    lines.append(json.dumps({"ev": "reset", "tr": -2, "side": ""}))
    where.append((-2, -1))
    return "\n".join(lines) + "\n", where


# ---------------------------------------------------------------------------------- (c) TLC
def scsendtrace_text():
    return open(os.path.join(vf.VERIF, "spec", "ScSend", "ScSendTrace.tla")).read()


def check_restated_rules():
    """ChanTrace INSTANCEs ScSendTrace and restates ScRecv.SeqFollows; ChanTraceEq quotes the latter verbatim.
    If the quoted text is no longer in ScRecv.tla the restatement has to be reviewed."""
    src = open(os.path.join(vf.VERIF, "spec", "ScRecv", "ScRecv.tla")).read()
    need = ["HighZone(s)  == s < 0 /\\ s >= -1024", "LowZone(s)   == s >= 0 /\\ s < 1024",
            "/\\ s - last > 0", "/\\ (last < 0 /\\ s >= 0) => (HighZone(last) /\\ LowZone(s))"]
    for n in need:
        if n not in src:
            raise vf.Inconclusive("spec/ScRecv/ScRecv.tla no longer contains %r: ChanTrace's restatement of SeqFollows must be reviewed" % n)


def tlc_batch(run, streams, label, cfg="ChanTrace.cfg", count=False):
    """One TLC run over the streams.  Returns (rows by stream index, stuck (stream index, event index) or None)."""
    text, where = batch_text(streams)
    r = run.tlc("ChanTrace", "ChanTrace", cfg, mode="trace", deque=True, count=count, label=label, timeout=1800,
                files={"trace.ndjson": text, "ScSendTrace.tla": scsendtrace_text()})
    rows = {x["tr"]: x for x in r.rows if "tr" in x}
    stuck = [x["stuck"] for x in r.rows if "stuck" in x]
    if r.ok:
        if len(rows) != len(streams):
            raise vf.Inconclusive("ChanTrace: %d stream rows for %d streams" % (len(rows), len(streams)))
        return rows, None
    rejected = r.postcondition_failed or (r.error or "").startswith("Postcondition TPost")
    if not stuck or r.violated or not rejected:
        run.save_text("tlc-ChanTrace-%s.out" % cfg, r.out)
        raise vf.Inconclusive("ChanTrace trace validation did not run to a verdict: %s" % (r.violated or r.error or "no stuck row"))
    line = stuck[-1]
    if not (1 <= line <= len(where)):
        raise vf.Inconclusive("ChanTrace: stuck at line %d of %d" % (line, len(where)))
    return rows, where[line - 1]


def brief(e):
    keys = ("ev", "ord", "type", "kind", "chan", "tok", "seq", "req", "i", "n", "renew", "len")
    return {k: e[k] for k in keys if k in e}


def validate(run, side, info=None, cfg="ChanTrace.cfg", count=False, selftest=True):
    """Record (unless `info` is given), validate all `side` streams, report.  Returns a summary dict."""
    assert side in ("send", "recv")
    if info is None and not os.path.exists(os.path.join(vf.REPO, "uasc", "verif_trace.go")):
        run.notes.append("repository-test traces skipped: %s has no file tracer (uasc/verif_trace.go)" % vf.REPO)
        return None
    if side == "recv":
        check_restated_rules()
    if info is None:
        info = record(run, run.tmp("repotrace-" + side))
    streams = collect(info, side)
    streams = [s for s in streams if s["recs"]]
    if not streams:
        raise vf.Inconclusive("the repository's tests produced no %s-side trace events (tracer missing? VERIF_REPO=%s)" % (side, vf.REPO))
    summary = {"side": side, "packages": {}, "streams": len(streams), "events": sum(len(s["recs"]) for s in streams)}
    todo = list(streams)
    accepted, rejected = [], []
    rows_all = {}
    for rnd in range(MAX_REJECTED + 1):
        rows, stuck = tlc_batch(run, todo, "repository-test traces, %s side: %d streams, %d events%s" % (
            side, len(todo), sum(len(s["recs"]) for s in todo), "" if rnd == 0 else " (without %d rejected)" % len(rejected)),
            cfg=cfg, count=count)
        if stuck is None:
            for k, s in enumerate(todo):
                s["row"] = rows[k]
            accepted = todo
            break
        k, j = stuck
        if k < 0 or j < 0:
            raise vf.Inconclusive("ChanTrace stuck at a reset record (stream %d)" % k)
        bad = todo[k]
        # the record index equals the event index (one record per event)
        bad["at"] = j
        rejected.append(bad)
        todo = todo[:k] + todo[k + 1:]
        if not todo:
            break
    else:
        run.notes.append("repository-test traces (%s): more than %d rejected streams; %d streams not examined" % (side, MAX_REJECTED, len(todo)))
        todo = []
    for s in rejected:
        j = s["at"]
        who = "%s conn=%s %s %s stream (%s)" % (s["pkg"], s["conn"], "server" if s["srv"] else "client", side, s["file"])
        run.violation("repo-test-trace-rejected:%s:%s" % (side, s["pkg"]),
                      "%s: event %d of %d is not allowed by spec/ChanTrace: %s; accepted before it: %s" % (
                          who, j + 1, len(s["events"]), json.dumps(brief(s["events"][j])),
                          json.dumps([brief(e) for e in s["events"][max(0, j - 4):j]])),
                      case={"package": s["pkg"], "conn": s["conn"], "server": s["srv"], "side": side, "at": j,
                            "events": [brief(e) for e in s["events"][max(0, j - 20):j + 1]]})
    gap = 0
    for s in accepted:
        p = summary["packages"].setdefault(s["pkg"], {"streams": 0, "events": 0, "multi_chunk_messages": 0, "wraps": 0,
                                                      "aborted_messages": 0, "paired_with_sender": 0})
        p["streams"] += 1
        p["events"] += len(s["recs"])
        p["wraps"] += s["row"]["wraps"]
        p["aborted_messages"] += s["row"]["aborts"]
        p["paired_with_sender"] += 1 if s.get("paired") else 0
        if side == "send":
            p["multi_chunk_messages"] += sum(1 for e in s["events"] if e["ev"] == "chunk.write" and e["i"] == 0 and e["n"] > 1)
        else:
            p["multi_chunk_messages"] += sum(1 for e in s["events"] if e.get("kind") == "F" and e.get("_n", 0) > 1)
        if s["row"]["n"] != sum(1 for r in s["recs"] if r["ev"] in ("write", "recv")):
            raise vf.Inconclusive("ChanTrace counted %d chunks of a stream that has %d" % (s["row"]["n"], len(s["recs"])))
        if s["row"]["gap"]:
            # accepted only through the modelled deviation Dev_GateGap = the open finding of C11
            gap += 1
            run.violation("duplicate-seq-on-superseded-instance",
                          "%s conn=%s: %d chunk(s) of a repository test continue the counter of the instance superseded by a renewal" % (
                              s["pkg"], s["conn"], s["row"]["gap"]))
    run.cov["traces_validated_against_impl"] += len(accepted)
    summary.update({"accepted": len(accepted), "rejected": len(rejected), "accepted_through_Dev_GateGap": gap})
    for pkg, inf in info.items():
        summary["packages"].setdefault(pkg, {"streams": 0, "events": 0})
        summary["packages"][pkg]["go_test_exit"] = inf["exit"]
    # binding demonstration: one recorded sequence number changed -> the stream must be rejected
    if selftest and accepted:
        cand = [s for s in accepted if sum(1 for r in s["recs"] if r["ev"] in ("write", "recv")) >= 4]
        if cand:
            s = max(cand, key=lambda s: len(s["recs"]))
            c = {k: v for k, v in s.items() if k != "row"}
            c["recs"] = [dict(r) for r in s["recs"]]
            idx = [i for i, r in enumerate(c["recs"]) if r["ev"] in ("write", "recv")]
            p, i = idx[len(idx) // 2 - 1], idx[len(idx) // 2]
            # send: the previous chunk's number + 2 (a skipped number); recv: the previous chunk's number once more (a replay)
            prev = c["recs"][p]["hi"] * 65536 + c["recs"][p]["lo"]
            c["recs"][i]["hi"], c["recs"][i]["lo"] = halves(prev + 2 if side == "send" and prev < 2 ** 32 - 2048 else prev)
            _, stuck = tlc_batch(run, [c], "binding self-test: one recorded sequence number changed (%s)" % side, cfg=cfg)
            if stuck is None:
                raise vf.Inconclusive("ChanTrace accepted a stream with a corrupted sequence number")
            if stuck != (0, i):
                raise vf.Inconclusive("ChanTrace rejected the corrupted stream at record %s instead of %d" % (stuck, i))
            summary["corrupted_seq_rejected_at_event"] = i + 1
    run.cov.setdefault("repo_test_traces", {})[side] = summary
    run.log("repository-test traces (%s): %d streams / %d events, %d accepted, %d rejected" % (
        side, summary["streams"], summary["events"], len(accepted), len(rejected)))
    run.assumptions.append(
        "repository-test traces: the tracer's global counter orders the events of one stream as the hooks were reached "
        "(chunk.write under the instance lock right before the socket write, recv.chunk after readChunk accepted the chunk); "
        "a channel without a logged handshake was put in place by a unit test's fixture")
    return summary


# ---------------------------------------------------------------------------------- rules self-test
def _w(seq, req=1, i=0, n=1, chan=7, tok=1, typ="MSG"):
    return {"ev": "chunk.write", "seq": seq, "req": req, "i": i, "n": n, "chan": chan, "tok": tok, "type": typ}


def _r(seq, req=1, kind="F", typ="MSG", part=0, n=0, msg=0):
    e = {"ev": "recv.chunk", "seq": seq, "req": req, "kind": kind, "type": typ}
    if part:
        e.update({"_part": part, "_n": n, "_msg": msg})
    return e


def _inst(chan=7, tok=1):
    return {"ev": "open.installed", "chan": chan, "tok": tok}


def _cop(seq, renew):
    return {"ev": "open.copied", "seq": seq, "renew": renew}


M = 2 ** 32
HS = [_cop(0, False), _w(1, typ="OPN", chan=0, tok=0), _inst()]      # a client's first handshake
SYNTH = [
    # name, side, events, index of the event that must be rejected (None: accepted), same under the contract cfg?
    ("fixture stream, 3-chunk message", "send", [_w(1, 1, 0, 3), _w(2, 1, 1, 3), _w(3, 1, 2, 3), _w(4, 2)], None, None),
    ("handshake then messages", "send", HS + [_w(2, 2), _w(3, 3, 0, 2), _w(4, 3, 1, 2)], None, None),
    ("wrap from 2^32-1024 to 1", "send", [_w(M - 1025), _w(M - 1024, 2), _w(1, 3), _w(2, 4)], None, None),
    ("message aborted between two chunks", "send", [_w(1, 1, 0, 3), _w(2, 1, 1, 3), _w(3, 2), _w(4, 3)], None, None),
    ("renewal", "send", HS + [_w(2, 2), _cop(2, True), _w(3, 3, typ="OPN"), _inst(7, 2), _w(4, 4, tok=2)], None, None),
    ("old token still used after a renewal", "send", HS + [_w(2, 2), _cop(2, True), _w(3, 3, typ="OPN"), _inst(7, 2), _w(4, 4, tok=1)], None, None),
    ("gate gap: chunk on the superseded instance's counter", "send",
     HS + [_w(2, 2), _cop(2, True), _w(3, 3, typ="OPN"), _w(3, 4), _inst(7, 2), _w(4, 5, tok=2)], None, 6),
    ("number skipped", "send", HS + [_w(2, 2), _w(4, 3)], 4, 4),
    ("number repeated", "send", [_w(5), _w(6, 2), _w(6, 3)], 2, 2),
    ("number goes back", "send", [_w(5), _w(6, 2), _w(3, 3)], 2, 2),
    ("wrap from outside the zone", "send", [_w(M - 5000), _w(1, 2)], 1, 1),
    ("wrap to a number >= 1024", "send", [_w(M - 1024), _w(1024, 2)], 1, 1),
    ("no wrap: counter runs past 2^32-1024", "send", [_w(M - 2), _w(M - 1, 2), _w(0, 3), _w(1, 4)], None, None),
    ("interleaved: message resumes after another one", "send", [_w(1, 1, 0, 2), _w(2, 2), _w(3, 1, 1, 2)], 2, 2),
    ("chunk index jumps", "send", [_w(1, 1, 0, 3), _w(2, 1, 2, 3)], 1, 1),
    ("chunk count changes inside a message", "send", [_w(1, 1, 0, 3), _w(2, 1, 1, 2)], 1, 1),
    ("message starts with chunk 1", "send", [_w(1, 1, 1, 2)], 0, 0),
    ("token never installed", "send", HS + [_w(2, 2, tok=9)], 3, 3),
    ("message chunk before the token is installed", "send", HS[:2] + [_w(2, 2)], 2, 2),
    ("renewal copies another number", "send", HS + [_w(2, 2), _cop(5, True)], 4, 4),
    ("first open on a used stream", "send", [_w(1), _cop(0, False)], 1, 1),
    ("in order, forward gap, wrap", "recv", [_r(M - 1030), _r(M - 1024, 2), _r(3, 3), _r(4, 4)], None, None),
    ("across 2^31", "recv", [_r(2 ** 31 - 1), _r(2 ** 31, 2), _r(2 ** 31 + 1, 3)], None, None),
    ("3-chunk message, sender known", "recv", [_r(1, 1, "C", part=1, n=3, msg=1), _r(2, 1, "C", part=2, n=3, msg=1), _r(3, 1, "F", part=3, n=3, msg=1),
                                               _r(4, 2, "F", part=1, n=1, msg=2)], None, None),
    ("interleaved messages of two request ids (reference sender)", "recv", [_r(1, 1, "C"), _r(2, 2, "C"), _r(3, 1, "F"), _r(4, 2, "F")], None, None),
    ("abort chunk discards the buffered chunks", "recv", [_r(1, 1, "C", part=1, n=3, msg=1), _r(2, 1, "A"), _r(3, 1, "C", part=1, n=2, msg=2),
                                                          _r(4, 1, "F", part=2, n=2, msg=2)], None, None),
    ("replayed chunk accepted", "recv", [_r(5), _r(6, 2), _r(6, 2)], 2, 2),
    ("older chunk accepted", "recv", [_r(5), _r(6, 2), _r(4, 3)], 2, 2),
    ("pre-wrap chunk accepted after the wrap", "recv", [_r(M - 1024), _r(2, 2), _r(M - 1023, 3)], 2, 2),
    ("2^32 crossed from outside the zone", "recv", [_r(M - 5000), _r(5, 2)], 1, 1),
    ("final chunk completes a message with a missing part", "recv", [_r(1, 1, "C", part=1, n=3, msg=1), _r(3, 1, "F", part=3, n=3, msg=1)], 1, 1),
    ("final chunk of another message type", "recv", [_r(1, 1, "C"), _r(2, 1, "F", typ="OPN")], 1, 1),
    ("new message while chunks of the same id are buffered", "recv", [_r(1, 1, "C", part=1, n=2, msg=1), _r(2, 1, "C", part=1, n=2, msg=2)], 1, 1),
    ("final chunk that is not the last part", "recv", [_r(1, 1, "F", part=1, n=2, msg=1)], 0, 0),
]


def selftest(run):
    """Non-vacuity of the rules of spec/ChanTrace: synthetic streams, each accepted / rejected at the stated event,
    with the as-is configuration and with the contract configuration (Dev_GateGap = FALSE)."""
    def mk(name, side, evs):
        evs = [dict(e, ord=k + 1) for k, e in enumerate(evs)]
        return {"pkg": "synthetic", "file": name, "conn": 1, "srv": False, "side": side, "events": evs, "recs": convert(side, evs)}
    res = []
    for cfg, col in (("ChanTrace.cfg", 3), ("ChanTrace_contract.cfg", 4)):
        good = [mk(n, sd, ev) for (n, sd, ev, a, c) in SYNTH if (a, c)[col - 3] is None]
        rows, stuck = tlc_batch(run, good, "rules self-test: %d conforming synthetic streams (%s)" % (len(good), cfg), cfg=cfg, count=True)
        if stuck is not None:
            raise vf.Inconclusive("rules self-test (%s): conforming stream %r rejected at event %d" % (cfg, good[stuck[0]]["file"], stuck[1]))
        for t in SYNTH:
            want = t[col]
            if want is None:
                continue
            if cfg == "ChanTrace_contract.cfg" and t[3] == t[4]:
                continue            # same expectation as with the as-is configuration: not repeated
            _, stuck = tlc_batch(run, [mk(t[0], t[1], t[2])], "rules self-test: %s (%s)" % (t[0], cfg), cfg=cfg)
            if stuck != (0, want):
                raise vf.Inconclusive("rules self-test (%s): %r: rejected at %s, expected event %d" % (cfg, t[0], stuck, want))
            res.append((cfg, t[0], want))
        run.log("rules self-test %s: %d conforming streams accepted (aborts %d, wraps %d, gate-gap chunks %d)" % (
            cfg, len(good), sum(r["aborts"] for r in rows.values()), sum(r["wraps"] for r in rows.values()), sum(r["gap"] for r in rows.values())))
    run.log("rules self-test: %d non-conforming streams rejected at the expected event" % len(res))
    return res


# ---------------------------------------------------------------------------------- standalone
def _main():
    args = sys.argv[1:]
    side, keep, frm, cfg = "both", None, None, "ChanTrace.cfg"
    i = 0
    rest = []
    while i < len(args):
        if args[i] == "--side":
            side = args[i + 1]; i += 2
        elif args[i] == "--keep":
            keep = args[i + 1]; i += 2
        elif args[i] == "--from":
            frm = args[i + 1]; i += 2
        elif args[i] == "--contract":
            cfg = "ChanTrace_contract.cfg"; i += 1
        elif args[i] == "--selftest":
            side = "selftest"; i += 1
        else:
            rest.append(args[i]); i += 1
    sys.argv = [sys.argv[0]] + rest
    os.environ["VERIF_NO_EVIDENCE"] = "1"

    def body(run):
        if side == "selftest":
            selftest(run)
            run.tlc("ChanTrace", "ChanTraceEq", "ChanTraceEq.cfg", files={"ScSendTrace.tla": scsendtrace_text()}, workers=1, count=False,
                    label="SeqFollows on halves = ScRecv.SeqFollows on its domain")
            return
        if frm:
            info = {}
            for d in sorted(glob.glob(os.path.join(frm, "*"))):
                if os.path.isdir(d):
                    info[os.path.basename(d)] = {"files": sorted(glob.glob(os.path.join(d, "tr-*.ndjson"))), "exit": None}
        else:
            info = record(run, keep or run.tmp("repotrace"))
        for sd in (("send", "recv") if side == "both" else (side,)):
            s = validate(run, sd, info=info, cfg=cfg, count=True)
            print(json.dumps(s, indent=1))

    vf.main(body, "T")


if __name__ == "__main__":
    _main()
