# C38 -- a maximal chunk body always fits the negotiated chunk size.
#   proof   : spec/ChunkLayout/LayoutArithProof.tla (TLAPS): fit / tightness / alignment / every smaller
#             body fits, for EVERY integer chunk size >= 8192 (HMAC-SHA1/SHA256 + AES-CBC, and None)
#   TLC     : the same operators swept over a range of chunk sizes for all 11 policy/mode pairs,
#             the chunker machine at boundary sizes, and a deviation demo (the historical formula
#             with the padding byte inside the floor must violate ThmC38)
#   binding : for every (policy, mode, chunk size) row a real channel pair is opened with that
#             chunk size: maxBodySize of both instances = MaxBody of the spec; bodies MaxBody-1,
#             MaxBody, MaxBody+1 are sent both ways and every chunk on the wire must have exactly the
#             length the spec computes (<= chunk size, block aligned; MaxBody+1 -> two chunks).
import layoutlib as ll
import vf


def body(run):
    q = run.quick()
    sizes = list(range(8192, 8192 + 17)) + [65535, 65536] + ll.seeded_sizes(run.seed, 3 if q else 12)
    if not q:
        sizes += list(range(8192 + 17, 8192 + 49)) + [1 << 14, (1 << 14) + 1, (1 << 16) - 15, (1 << 17) + 5, (1 << 20) - 1, 1 << 20]
    gen_cfg = ll.cfg(sizes, ks=(1,), emit=True, invs=("ThmC38", "InvFits", "InvRoundTrip", "InvEmit"))
    mc_cfg = ll.cfg(sizes, ks=(0, 1, 2), extra=(0, 1), invs=ll.MACHINE_INVS)
    sweep_hi = 8192 + 4096 - 1 if q else (1 << 20) - 1
    exe = [None]
    res = run.parallel(
        lambda: ll.tlapm(run),
        lambda: run.tlc("ChunkLayout", "ChunkLayout", "mc.cfg", files={"mc.cfg": mc_cfg},
                        label="contract: C38 theorems + chunker machine at the explored chunk sizes", timeout=2400),
        lambda: run.tlc("ChunkLayout", "ChunkLayout", "sweep.cfg",
                        files={"sweep.cfg": ll.cfg([8192], init="InitSweep", nxt="NextSweep", invs=("ThmSweep",), sweep=(8192, sweep_hi))},
                        label="sweep: C38 for every chunk size 8192..%d, all policy/mode pairs" % sweep_hi, timeout=2400),
        lambda: run.tlc("ChunkLayout", "ChunkLayout", "dev.cfg",
                        files={"dev.cfg": ll.cfg([8192, 8193, 65535], ks=(1,), invs=("ThmC38",), dev_inside=True)},
                        expect="violation", count=False, label="deviation demo: padding byte inside the floor violates ThmC38"),
        lambda: run.tlc("ChunkLayout", "ChunkLayout", "gen.cfg", files={"gen.cfg": gen_cfg}, mode="gen", count=False,
                        label="rows: (policy, mode, chunk size) x body MaxBody-1, MaxBody, MaxBody+1", timeout=2400),
        lambda: exe.__setitem__(0, run.go_build("layout")),
    )
    rows = res[4].rows
    nrows = len([r for r in rows if "table" not in r])
    run.log("proof: %d obligations; TLC: %d states; %d rows" % (res[0], run.cov["states"], nrows))
    if nrows < 11 * len(set(sizes)) * 3:
        raise vf.Inconclusive("only %d rows generated" % nrows)
    ll.corrupt_rows(run, rows)
    results = run.go_run(exe[0], ["-prop", "C38", "-workers", "8" if q else "12"], cases=rows, timeout=3000)
    run.absorb(results)
    run.cov["rows"] = nrows
    run.cov["chunk_sizes"] = sorted(set(sizes))
    run.cov["rule"] = ("one case per TLC terminal state (policy, mode, chunk size, body in {MaxBody-1, MaxBody, MaxBody+1}) and direction; "
                       "class = policy x mode x chunk size mod 16 x number of chunks x kind of last chunk x direction")
    run.assumptions += ["chunk sizes above 2^20 are covered by the proof only (no channel pair is opened for them)",
                        "the negotiated chunk size is the same in both directions (send = receive buffer size on both sides)",
                        "TLAPS/SMT back end, TLC, SANY and the Go toolchain are trusted"]


vf.main(body, "C38", level="proof", design_ref="S3/C38")
