# C04 -- NodeID textual form round-trips and equality matches identity.
# spec/NodeIdText: Format / Parse (documented grammar) / Equal-as-text-equality over all six encodings,
# identifiers over an alphabet with ';', '=', prefix look-alikes, empty and non-UTF-8, ExpandedNodeID
# nsu= resolution against namespace tables.  TLC proves Parse(Format(n)) = Canon(n),
# Equal <=> same node and the nsu resolution on the model (one state per node / pair / case), two
# deviation demos must be caught, and every state is replayed on ua.NodeID / ua.ParseNodeID /
# ua.ParseExpandedNodeID / ua.TypeRegistry with the model's values as oracle.
import vf


def body(run):
    q = run.quick()
    exe = [None]
    jobs = [
        lambda: run.tlc("NodeIdText", "NodeIdText", "NodeIdText_quick_gen.cfg" if q else "NodeIdText_thorough_gen.cfg",
                        mode="gen", label="contract InvRoundTrip + rows: every node", timeout=3000),
        lambda: run.tlc("NodeIdText", "NodeIdText", "NodeIdText_pairs_gen.cfg", mode="gen",
                        label="contract InvEqual + rows: every pair", timeout=3000),
        lambda: run.tlc("NodeIdText", "NodeIdText", "NodeIdText_x_gen.cfg", mode="gen",
                        label="contract InvExpanded + rows: table x uri x id", timeout=3000),
        lambda: run.tlc("NodeIdText", "NodeIdText", "NodeIdText_dev_split.cfg", expect="violation", count=False,
                        label="deviation demo: split at first ';' violates InvRoundTrip"),
        lambda: run.tlc("NodeIdText", "NodeIdText", "NodeIdText_dev_equal.cfg", expect="violation", count=False,
                        label="deviation demo: Equal ignoring the identifier type violates InvEqual"),
        lambda: exe.__setitem__(0, run.go_build("nodeid")),
    ]
    res = run.parallel(*jobs)
    rows = res[0].rows + res[1].rows + res[2].rows
    for r, n in ((res[0], "node"), (res[1], "pair"), (res[2], "xnode")):
        if r.distinct != len(r.rows):
            raise vf.Inconclusive("%s: %d states but %d rows" % (n, r.distinct, len(r.rows)))
    run.log("TLC: %d states; %d rows to replay" % (run.cov["states"], len(rows)))
    results = run.go_run(exe[0], [], cases=rows)
    if len(results) != len(rows) + 1:
        raise vf.Inconclusive("harness returned %d results for %d rows" % (len(results), len(rows)))
    run.absorb(results)
    wp = [r for r in results if r.get("class") == "window-pairs"]
    run.cov["rows_nodes"] = len(res[0].rows)
    run.cov["rows_pairs"] = len(res[1].rows)
    run.cov["rows_expanded"] = len(res[2].rows)
    run.cov["window_pairs_compared"] = wp[0]["obs"]["pairs_compared"] if wp else 0
    run.cov["rule"] = ("one case per TLC state: node (encoding x namespace class x identifier features: length, ';', '=', "
                       "prefix look-alike, non-UTF-8), pair (encodings x namespace classes x same/different), expanded "
                       "(table length x found x identifier type); class = those features")
    run.assumptions += [
        "base64, GUID hex text and decimal rendering are trusted primitives (blob tokens in the model never contain ';')",
        "namespace URIs containing ';' are outside the domain (Part 6 requires them to be escaped)",
        "GUID node ids are built from well-formed GUID strings; svr= is not part of the text form of this library",
    ]


vf.main(body, "C04", design_ref="S12/C04")
