# C24 -- endpoint selection returns a best matching endpoint.
# spec/Endpoint: contract (Best) + the implementation's algorithm (unstable descending sort,
# first match).  TLC proves the algorithm meets the contract for every list/query in bounds,
# a deviation demo (ascending sort) must be caught, and every initial state is replayed on
# opcua.SelectEndpoint with the TLC-computed set of acceptable answers as oracle.
import vf


def body(run):
    q = run.quick()
    exe = [None]
    jobs = [
        lambda: run.tlc("Endpoint", "Endpoint", "Endpoint_quick.cfg" if q else "Endpoint_thorough.cfg",
                        label="contract: algorithm meets Best() for all lists/queries", timeout=3000),
        lambda: run.tlc("Endpoint", "Endpoint", "Endpoint_bad.cfg", expect="violation", count=False,
                        label="deviation demo: ascending sort violates InvContract"),
        lambda: run.tlc("Endpoint", "Endpoint", "Endpoint_small_gen.cfg" if q else "Endpoint_quick_gen.cfg",
                        mode="gen", count=False, label="rows: exhaustive lists", timeout=3000),
        lambda: run.tlc("Endpoint", "Endpoint", "Endpoint_sim_quick.cfg" if q else "Endpoint_sim.cfg",
                        mode="gen", count=False, label="rows: seeded samples of longer lists",
                        timeout=3000).rows if False else
                run.tlc("Endpoint", "Endpoint", "Endpoint_sim_quick.cfg" if q else "Endpoint_sim.cfg",
                        mode="gen", count=False, label="rows: seeded samples of longer lists", timeout=3000),
        lambda: exe.__setitem__(0, run.go_build("endpoint")),
    ]
    res = run.parallel(*jobs)
    rows = res[2].rows + res[3].rows
    run.log("TLC: %d states; %d rows to replay" % (run.cov["states"], len(rows)))
    results = run.go_run(exe[0], [], cases=rows)
    if len(results) != len(rows):
        raise vf.Inconclusive("harness returned %d results for %d rows" % (len(results), len(rows)))
    run.absorb(results)
    run.cov["rule"] = ("one case per TLC initial state (endpoint list, query); class = list length x query shape x "
                       "number of acceptable answers; exhaustive up to the small bound plus seeded longer lists")
    run.cov["rows_exhaustive"] = len(res[2].rows)
    run.cov["rows_sampled"] = len(res[3].rows)
    run.assumptions += ["ties between equally good endpoints are left open (any best endpoint is accepted)",
                        "policies are the registered short names / URIs; unknown policy strings are not explored"]


vf.main(body, "C24", design_ref="S11/C24")
