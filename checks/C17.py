# C17 -- chunks secured with an expired (replaced, lifetime + 25 % elapsed) token are rejected.
# spec/ScRecv/ScExpire: token store of the receiving channel, renewals, one expiry timer per
# token, discrete clock, injected well-formed chunks protected with the keys of any token.
# TLC proves InvExpired for the contract (a due timer removes exactly its token), shows that the
# clean-up under the wrong map key (Dev_ExpiryWrongKey) violates it, and emits the behaviours
# (renew / tick / inject sequences with the verdict of every injection).  A behaviour is replayed
# in real time on a real client channel: every renewal is answered by a fresh gopcua server
# channel object issuing the next token id, the server clock is skewed so that the client's own
# expiry timers fall where the model says (tick = 400 ms), the injected chunks are laid out by the
# harness's chunk writer and protected with the real keys of the chosen token.  Late injections
# wait for the channel's own expire.run event (bounded), not for the wall clock.
import vf
import screcv_common as sc


def body(run):
    q = run.quick()
    exe = [None]
    res = run.parallel(
        lambda: run.tlc("ScRecv", "ScExpire", "ScExpire_mc.cfg", workers=2, label="contract: 3 tokens, lifetime 4 ticks, 12 ticks, 3 injections"),
        lambda: run.tlc("ScRecv", "ScExpire", "ScExpire_dev.cfg", workers=1, expect="violation", count=False,
                        label="deviation demo: expiry under the wrong map key violates InvExpired"),
        lambda: run.tlc("ScRecv", "ScExpire", "ScExpire_gen_q.cfg" if q else "ScExpire_gen_t.cfg", mode="gen", count=False,
                        label="behaviours with at least one overdue injection"),
        lambda: exe.__setitem__(0, run.go_build("screcv")),
    )
    rows = res[2].rows
    combos = [("Basic256Sha256", "Sign"), ("Basic256Sha256", "SignAndEncrypt")] if q else sc.SECURED
    cases = []
    salt = 0
    for pol, mode in combos:
        salt += 1
        for b in sc.sample(rows, run.pick(6, 30 if pol == "Basic256Sha256" else 6), run.seed, salt):
            c = dict(b)
            c.update({"prop": "C17", "policy": pol, "mode": mode, "side": "client"})
            cases.append(c)
        cases.append({"prop": "C17", "policy": pol, "mode": mode, "side": "server", "lifetime": 4, "steps": []})
    run.log("TLC: %d states; %d behaviours; %d cases (real time, ~4 s each)" % (run.cov["states"], len(rows), len(cases)))
    results = run.go_run(exe[0], ["-par", "8", "-batch", "4"], cases=cases, timeout=run.pick(900, 2400))
    if len(results) != len(cases):
        raise vf.Inconclusive("harness returned %d results for %d cases" % (len(results), len(cases)))
    sc.log_inconclusive(run, results)
    run.absorb(results)
    run.cov["behaviours_generated"] = len(rows)
    run.cov["rule"] = ("one case per (sampled TLC behaviour with an overdue injection, policy, mode) on a client channel, plus one "
                       "renewal-drops-old-keys observation per (policy, mode) on a server channel; class = the behaviour's action sequence")
    run.assumptions += [
        "model tick = 400 ms; real lifetime 20 s with the token-issuing clock 23 s behind, so created + 1.25 x lifetime falls 5 ticks after issue",
        "a late injection is sent 500 ms after its model time and additionally waits up to 4 s for the channel's expire.run event of that token (scheduling slack on a loaded machine)",
        "only injections of a replaced token after created + 1.25 x lifetime are judged; whether earlier ones are still accepted is C16's question (recorded)",
        "renewals are answered by gopcua's own server-side OPN code (a fresh server channel object per token id); the server side of gopcua re-keys one instance in place, so a server channel holds no old keys at all (recorded, not judged)",
    ]


vf.main(body, "C17", design_ref="S5/C17")
