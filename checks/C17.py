# C17 -- chunks secured with an expired (replaced, lifetime + 25 % elapsed) token are rejected.
# spec/ScRecv/ScExpire: token store of the receiving channel, renewals, one expiry timer per
# token, discrete clock, injected well-formed chunks protected with the keys of any token.
# TLC proves InvExpired for the contract (a due timer removes exactly its token), shows that the
# clean-up under the wrong map key (Dev_ExpiryWrongKey) violates it, and emits the behaviours
# (renew / tick / inject sequences with the verdict of every injection).  A behaviour is replayed
# in real time on a real client channel: every renewal is answered by a fresh gopcua server
# channel object issuing the next token id, every token gets its own (real) lifetime -- 2 s, 5 s,
# 100 s; tokens need not expire in issue order -- (tick = 250 ms), the injected chunks are laid out by the
# harness's chunk writer and protected with the real keys of the chosen token.  Late injections
# wait for the channel's own expire.run event (bounded), not for the wall clock.
import vf
import screcv_common as sc


def sig(b):
    """What a behaviour exercises: lifetimes of the tokens in issue order, which renewals are late, which tokens are injected overdue."""
    lifes = [b["life1"]] + [s["life"] for s in b["steps"] if s["act"] == "renew"]
    late = tuple(s["now"] > 3 for s in b["steps"] if s["act"] == "renew")
    od = tuple(sorted({s["t"] for s in b["steps"] if s["act"] == "inject" and s.get("overdue")}))
    return (tuple(lifes), late, od)


def body(run):
    q = run.quick()
    exe = [None]
    res = run.parallel(
        lambda: run.tlc("ScRecv", "ScExpire", "ScExpire_mc.cfg", workers=2, label="contract: 3 tokens, lifetimes 2 s / 5 s / 100 s per token, 30 ticks, 2 injections"),
        lambda: run.tlc("ScRecv", "ScExpire", "ScExpire_dev.cfg", expect="violation", count=False, workers=1,
                        label="deviation demo: expiry under the wrong map key violates InvExpired"),
        lambda: run.tlc("ScRecv", "ScExpire", "ScExpire_dev2.cfg", expect="violation", count=False, workers=1,
                        label="deviation demo: sweeping only an overdue front of the token list violates InvExpired (long, short, long)"),
        lambda: run.tlc("ScRecv", "ScExpire", "ScExpire_gen_a.cfg", mode="gen", count=False,
                        label="behaviours: 3 tokens, lifetimes 2 s / 100 s, early and late renewals"),
        lambda: run.tlc("ScRecv", "ScExpire", "ScExpire_gen_b.cfg", mode="gen", count=False,
                        label="behaviours: 2 tokens, lifetimes 5 s / 100 s"),
        lambda: exe.__setitem__(0, run.go_build("screcv")),
    )
    rows_a, rows_b = res[3].rows, res[4].rows
    combos = [("Basic256Sha256", "Sign"), ("Basic256Sha256", "SignAndEncrypt")] if q else sc.SECURED
    cases = []
    salt = 0
    for pol, mode in combos:
        salt += 1
        main = pol == "Basic256Sha256"
        pick = sc.stratified(rows_a, sig, 1 if q or not main else 3, run.seed, salt)
        pick += sc.stratified(rows_b, sig, 1, run.seed, salt + 50)
        if q or not main:
            pick = sc.sample(pick, 22 if main else 6, run.seed, salt + 99)
        for b in pick:
            c = dict(b)
            c.update({"prop": "C17", "policy": pol, "mode": mode, "side": "client"})
            cases.append(c)
        cases.append({"prop": "C17", "policy": pol, "mode": mode, "side": "server", "life1": 8, "steps": []})
    run.log("TLC: %d states; %d + %d behaviours; %d cases (real time, 4-8 s each)" % (run.cov["states"], len(rows_a), len(rows_b), len(cases)))
    results = run.go_run(exe[0], ["-par", "8", "-batch", "4"], cases=cases, timeout=run.pick(900, 2400))
    if len(results) != len(cases):
        raise vf.Inconclusive("harness returned %d results for %d cases" % (len(results), len(cases)))
    sc.log_inconclusive(run, results)
    run.absorb(results)
    run.cov["behaviours_generated"] = len(rows_a) + len(rows_b)
    run.cov["rule"] = ("one case per (TLC behaviour with an overdue injection, sampled one per signature = (lifetimes of the tokens in issue order, "
                       "early/late renewals, tokens injected overdue), policy, mode) on a client channel, plus one renewal-drops-old-keys observation "
                       "per (policy, mode) on a server channel; class = the behaviour's action sequence")
    run.assumptions += [
        "model tick = 250 ms; token lifetimes are real: 2 s, 5 s (not multiples of 800 ms: 1.25 x lifetime is not a whole number of seconds) and 100 s, one per token, set through the requested lifetime (gopcua's server code revises to exactly that)",
        "a late injection is sent 500 ms after its model time and additionally waits up to 4 s for the channel's expire.run event of that token (scheduling slack on a loaded machine)",
        "only injections of a replaced token after created + 1.25 x lifetime are judged; whether earlier ones are still accepted is C16's question (recorded)",
        "renewals happen in the first 500 ms or after the client's own renewal timers (0.75 x lifetime, unanswered here) have given up; their unanswered OPN requests are discarded",
        "renewals are answered by gopcua's own server-side OPN code (a fresh server channel object per token id); the server side of gopcua re-keys one instance in place, so a server channel holds no old keys at all (recorded, not judged)",
    ]


vf.main(body, "C17", design_ref="S5/C17")
