# C13 -- the channel receive path survives any peer byte stream: errors or close, no panic, no
# wedged receive goroutine, memory for incomplete messages bounded by the negotiated limits.
# Three parts, all generated from spec/ScRecv:
#  (1) ScRecv with floods: streams of intermediate chunks over many request ids that are never
#      completed.  TLC proves InvBounded (buffered chunks <= MaxChunkCount) for the contract
#      receiver and shows that a per-request-id bound (Dev_PerRequestBound) violates it; the flood
#      behaviours are written by the reference sender into real channels with MaxChunkCount = 4
#      negotiated -- on a fresh channel and behind a history of complete (single- and multi-chunk,
#      unevenly cut) and aborted messages -- and uasc.VerifBufferedChunks is compared with the bound
#      (slack x2); the history's messages must be delivered.  Streams of aborted partial messages
#      followed by a legal message of MaxChunkCount intermediate chunks are compared event by event.
#  (2) ScGarbage: relation (side, mode, phase, class of non-conforming frame) -> allowed reactions
#      (error / eof / accept), never panic, never hang; every row is replayed in a child process,
#      followed by an intact message when the channel is still open.
#  (3) the chunk-damage behaviours of C09 (truncations to every length, rewritten bytes) in
#      Sign / SignAndEncrypt are shared with check C09 and not repeated here.
import vf
import screcv_common as sc

POL = {"None": "None", "Sign": "Basic256Sha256", "SignAndEncrypt": "Basic256Sha256"}


def body(run):
    q = run.quick()
    exe = [None]
    res = run.parallel(
        lambda: run.tlc("ScRecv", "ScRecv_MC", "ScRecv_c13_mc.cfg", workers=2, label="contract: open request ids, MaxChunks 3, interleaved"),
        lambda: run.tlc("ScRecv", "ScRecv_MC", "ScRecv_c13_dev.cfg", workers=1, expect="violation", count=False,
                        label="deviation demo: per-request-id bound violates InvBounded"),
        lambda: run.tlc("ScRecv", "ScRecv_MC", "ScRecv_c13_flood_q.cfg" if q else "ScRecv_c13_flood_t.cfg", mode="gen", count=False,
                        label="flood behaviours (MaxChunks 4)"),
        lambda: run.tlc("ScRecv", "ScRecv_MC", "ScRecv_c13_legal.cfg", mode="gen", count=False,
                        label="aborted partial messages, then a legal message of MaxChunkCount intermediate chunks (MaxChunks 4)"),
        lambda: run.tlc("ScRecv", "ScGarbage", "ScGarbage_mc.cfg", workers=1, label="garbage table: no row allows panic / hang"),
        lambda: run.tlc("ScRecv", "ScGarbage", "ScGarbage_dev.cfg", workers=1, expect="violation", count=False,
                        label="deviation demo: missing length check puts panic into the table"),
        lambda: run.tlc("ScRecv", "ScGarbage", "ScGarbage_gen.cfg", mode="gen", count=False, label="garbage rows"),
        lambda: exe.__setitem__(0, run.go_build("screcv")),
    )
    floods, legal, rows = res[2].rows, res[3].rows, res[6].rows
    cases = []
    for b in floods:
        for side in ("server", "client"):
            c = dict(b)
            c.update({"prop": "C13", "kind": "flood", "policy": POL[b["mode"]], "side": side, "sender": "ref"})
            cases.append(c)
    for b in legal:      # conforming streams: compared event by event (as C12), with the chunk limit negotiated
        for side in ("server", "client"):
            if q and (b["mode"] == "Sign") != (side == "client"):
                continue
            c = dict(b)
            c.update({"prop": "C13", "policy": POL[b["mode"]], "side": side, "sender": "ref"})
            cases.append(c)
    pols = [POL] if q else [POL, {"None": "None", "Sign": "Basic256", "SignAndEncrypt": "Aes256_Sha256_RsaPss"}]
    for r in rows:
        for pm in pols:
            if pm is not POL and r["mode"] == "None":
                continue
            c = dict(r)
            c.update({"prop": "C13", "kind": "garbage", "policy": pm[r["mode"]], "expect_panic": "panic" in r["asis"]})
            cases.append(c)
    run.log("TLC: %d states; %d floods, %d legal streams, %d garbage rows; %d cases" % (run.cov["states"], len(floods), len(legal), len(rows), len(cases)))
    results = run.go_run(exe[0], ["-par", "6", "-batch", "12"], cases=cases, timeout=run.pick(900, 2400))
    if len(results) != len(cases):
        raise vf.Inconclusive("harness returned %d results for %d cases" % (len(results), len(cases)))
    sc.log_inconclusive(run, results)
    run.absorb(results)
    run.cov["rule"] = ("flood: one case per (TLC flood behaviour, mode, receiving side); garbage: one case per row (side, mode, phase, class) "
                       "of ScGarbage, several frames per class (every length 8..40 for the short classes); class = those tuples")
    run.assumptions += [
        "memory bound: buffered intermediate chunks over all request ids <= 2 x negotiated MaxChunkCount (slack 2; the specification's bound is MaxChunkCount); floods also start behind a history of 10 complete and 2 aborted messages; every buffered chunk pins one receive buffer",
        "'blocks forever' is decided by an intact message sent after the hostile frames: delivered within 12-15 s or the channel closed",
        "garbage classes are a finite table, the bytes inside a class are seeded; hostile service bodies (C02's generator) are represented by two classes only",
        "the server channel is driven by a loop that keeps calling Receive after an error",
    ]


vf.main(body, "C13", design_ref="S5/C13")
