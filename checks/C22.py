# C22 -- a session is established only after the server proves its identity.
# spec/Handshake with the scripted (adversarial) server: InvProvenIdentity, InvNoSessionUnverified, InvNoPanic,
# InvBadSigOutcome, InvBadStatusOutcome, InvCleanAfterFailure.  TLC proves them on the contract model (signature
# class x service-result class of the CreateSession response; sequences of Connect attempts on one client value),
# the deviation demos (failed check ignored; Good-with-subcode/Uncertain result skips the check's error; only the
# first failed Connect cleans up) must be caught; every terminal state is replayed: a scripted server on a real
# uasc server channel answers CreateSession with that signature and service result, the real client's Connect
# (one or several attempts on one client value) runs in a child process.
import random
import vf
from _family_f import dedupe, need, Background

SIGNED = [(p, m) for p in ("Basic128Rsa15", "Basic256", "Basic256Sha256", "Aes128_Sha256_RsaOaep", "Aes256_Sha256_RsaPss")
          for m in ("Sign", "SignAndEncrypt")]


def body(run):
    q = run.quick()
    exe = [None]
    bg = Background(
        lambda: run.tlc("Handshake", "Handshake", "Handshake_mc_quick.cfg" if q else "Handshake_mc.cfg",
                        label="contract: all invariants (scripted server: 5 signature classes x 4 service-result classes)", timeout=3000),
        lambda: run.tlc("Handshake", "Handshake", "Handshake_mc_retry.cfg",
                        label="contract: up to 3 Connect attempts on one client value, every signature x service result per attempt", timeout=3000),
        lambda: run.tlc("Handshake", "Handshake", "Handshake_dev_sig.cfg", expect="violation", count=False,
                        label="deviation demo: ignoring the failed signature check violates InvNoPanic"),
        lambda: run.tlc("Handshake", "Handshake", "Handshake_dev_status.cfg", expect="violation", count=False,
                        label="deviation demo: Good-with-subcode/Uncertain result drops the check's error: violates InvProvenIdentity"),
        lambda: run.tlc("Handshake", "Handshake", "Handshake_dev_closeonce.cfg", expect="violation", count=False,
                        label="deviation demo: only the first failed Connect cleans up: violates InvCleanAfterFailure"),
    )
    res = run.parallel(
        lambda: run.tlc("Handshake", "Handshake", "Handshake_gen_sig.cfg", mode="gen", count=False,
                        label="rows: (policy, mode, signature class, service-result class) -> allowed outcomes"),
        lambda: run.tlc("Handshake", "Handshake", "Handshake_gen_seq.cfg", mode="gen", count=False,
                        label="rows: sequences of up to 4 Connect attempts on one client value"),
        lambda: exe.__setitem__(0, run.go_build("handshake")),
    )
    # one row per (policy, mode, signature class, service-result class); the token type and client key size are
    # irrelevant here; where the specification allows two outcomes both are collected
    groups = {}
    for r in dedupe(res[0].rows):
        k = (r["pol"], r["mode"], r["sig"], r["sres"])
        g = groups.setdefault(k, {"row": r, "allowed": set()})
        g["allowed"].add(r["expect"]["state"])
    rows = []
    for k in sorted(groups):
        r = dict(groups[k]["row"])
        r["allowed"] = sorted(groups[k]["allowed"])
        rows.append(r)
    if q:
        # quick: three policies (rotating with the seed) x 2 modes x 5 classes x 4 service results (+ None)
        pols = sorted({r["pol"] for r in rows if r["pol"] != "None"})
        keep = {pols[(run.seed + i) % len(pols)] for i in (0, 2, 3)} | {"None"}
        rows = [r for r in rows if r["pol"] in keep]
    # sequences: the model has one signed pair; the concrete (policy, mode) rotates over all signed pairs
    seqs = [r for r in dedupe(res[1].rows) if r["ckey"] == 2048]
    rnd = random.Random(run.seed)
    if q:
        by_len = {}
        for s in seqs:
            by_len.setdefault((len(s["tries"]), s["tries"][-1]["sig"] == "valid"), []).append(s)
        pick = []
        for (n, good), lst in sorted(by_len.items()):
            lst = sorted(lst, key=lambda s: [t["sig"] for t in s["tries"]])
            want = {1: len(lst), 2: len(lst), 3: 8, 4: 12 if good else 6}[n]
            pick += lst if want >= len(lst) else rnd.sample(lst, want)
        seqs = pick
    for i, s in enumerate(seqs):
        s["pol"], s["mode"] = SIGNED[(i + run.seed) % len(SIGNED)]
    if not rows or not seqs:
        raise vf.Inconclusive("TLC emitted no rows")
    run.log("%d signature rows and %d attempt sequences to replay" % (len(rows), len(seqs)))
    results = run.go_run(exe[0], ["-prop", "C22", "-par", "6" if q else "10"], cases=rows + seqs, timeout=3000)
    need(results, rows + seqs, "sig")
    run.absorb(results)
    bg.join()
    run.cov["behaviours_replayed"] = len(rows) + len(seqs)
    run.cov["signature_rows"] = len(rows)
    run.cov["attempt_sequences"] = len(seqs)
    run.cov["rule"] = ("one case per TLC terminal state (policy, mode, signature class, service-result class of the "
                       "CreateSession response) and one per sequence of up to four Connect attempts on one client value "
                       "(every attempt a signature class; ends at the first success); class = that tuple. With a Good "
                       "service result every member of the signature class is tried (corrupted: bit flipped / truncated / "
                       "extended / all zero; empty: nil / zero length; otherdata: four data variants + overlapping "
                       "CreateSession), otherwise one seeded member. quick: three policies (rotating with the seed) and "
                       "a seeded sample of 30-odd sequences incl. all of length <= 2; thorough: all pairs, all 341 sequences")
    run.assumptions += [
        "'other key' = the right data signed with a third key pair while the response still carries the server certificate",
        "'other data' = one of: certificate without nonce, server's own certificate + nonce, certificate + fresh nonce, nonce + certificate; "
        "plus, for every (policy, mode), two overlapping CreateSession calls where the first is answered with a signature over the second request's nonce",
        "service results: Good-with-subcode in {GoodCompletesAsynchronously, GoodOverload, GoodClamped}, Uncertain in {Uncertain, UncertainSubNormal}, "
        "Bad in {BadInternalError, BadUnexpectedError, BadResourceUnavailable}; with a verified signature a non-zero Good/Uncertain result may be accepted or refused",
        "after a failed attempt: State() Closed (not Connecting/Connected), SecureChannel() nil, Session() nil, no socket beyond the baseline (/proc/self/fd)",
        "a response that carries a different certificate together with a matching signature is not explored (outside the statement)",
    ]


vf.main(body, "C22", design_ref="S8/C22")
