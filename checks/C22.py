# C22 -- a session is established only after the server proves its identity.
# spec/Handshake with the scripted (adversarial) server: InvProvenIdentity, InvNoPanic, InvBadSigOutcome.
# TLC proves them on the contract model, the deviation demo (signature failure logged, nil session
# returned) must be caught; every terminal state (policy, mode, signature class, expected outcome) is
# replayed: a scripted server on a real uasc server channel answers CreateSession with a signature of the
# class, the real client's Connect runs in a child process.
import vf
from _family_f import dedupe, need


def body(run):
    q = run.quick()
    exe = [None]
    res = run.parallel(
        lambda: run.tlc("Handshake", "Handshake", "Handshake_mc_quick.cfg" if q else "Handshake_mc.cfg",
                        label="contract: all invariants (scripted server included)", timeout=3000),
        lambda: run.tlc("Handshake", "Handshake", "Handshake_dev_sig.cfg", expect="violation", count=False,
                        label="deviation demo: ignoring the failed signature check violates InvNoPanic"),
        lambda: run.tlc("Handshake", "Handshake", "Handshake_gen_sig.cfg", mode="gen",
                        label="rows: (policy, mode, signature class) -> expected client/server outcome"),
        lambda: exe.__setitem__(0, run.go_build("handshake")),
    )
    rows = [r for r in dedupe(res[2].rows)]
    # the token type is irrelevant for the signature check: keep one row per (policy, mode, class)
    seen, uniq = set(), []
    for r in rows:
        k = (r["pol"], r["mode"], r["sig"])
        if k not in seen:
            seen.add(k)
            uniq.append(r)
    rows = uniq
    if q:
        # quick: 2 old + 1 new policy x both modes x 5 classes (+ None); the policy subset rotates with the seed
        pols = sorted({r["pol"] for r in rows if r["pol"] != "None"})
        keep = {pols[(run.seed + i) % len(pols)] for i in (0, 2, 3)} | {"None"}
        rows = [r for r in rows if r["pol"] in keep]
    if not rows:
        raise vf.Inconclusive("TLC emitted no rows")
    run.log("TLC: %d states; %d signature rows to replay" % (run.cov["states"], len(rows)))
    results = run.go_run(exe[0], ["-prop", "C22", "-par", "4" if q else "8"], cases=rows, timeout=3000)
    need(results, rows, "sig")
    run.absorb(results)
    run.cov["behaviours_replayed"] = len(rows)
    run.cov["rule"] = ("one case per TLC terminal state (policy, mode, signature class); class = that triple; the concrete "
                       "corruption (byte/bit flipped, which other data is signed, nil vs empty) is drawn from VERIF_SEED; "
                       "quick: three policies (rotating with the seed) x 2 modes x 5 classes + None, thorough: all 50 + None")
    run.assumptions += [
        "'other key' = the right data signed with a third key pair while the response still carries the server certificate",
        "'other data' = one of: certificate without nonce, server's own certificate + nonce, certificate + fresh nonce, nonce + certificate; "
        "plus, for every (policy, mode), two overlapping CreateSession calls where the first is answered with a signature over the second request's nonce",
        "a response that carries a different certificate together with a matching signature is not explored (outside the statement)",
    ]


vf.main(body, "C22", design_ref="S8/C22")
