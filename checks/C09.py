# C09 -- tampered, truncated or forged secured chunks are rejected (never delivered, error
# reported, no panic).
# spec/ScRecv: the gopcua sender's stream, an adversary that damages chunks (rewrites a region,
# truncates to a length class, extends, forges without / with other keys) and the receiver.
# TLC proves InvIntegrity (only intact chunks are ever accepted; whatever chunk comes next, every
# damaged version of it is refused) and InvNoCrash for the contract receiver, shows that the
# missing length check (Dev_ShortChunkPanics) violates InvNoCrash, and emits (a) every behaviour
# with up to 1 (quick) / 2 (thorough) damaged chunks and (b) sweep behaviours in which the i-th
# chunk is rewritten at byte i resp. cut to length 8+i.  The frame proxy applies the damage to the
# real sender's chunks; the receiving channel's events must be the ones the specification says.
import vf
import screcv_common as sc

MODE_POL_Q = {"Sign": ["Basic256Sha256"], "SignAndEncrypt": ["Basic256Sha256"]}
MODE_POL_T = {"Sign": ["Basic256Sha256", "Aes128_Sha256_RsaOaep", "Aes256_Sha256_RsaPss"],
              "SignAndEncrypt": ["Basic256Sha256", "Aes128_Sha256_RsaOaep", "Aes256_Sha256_RsaPss"]}
SHA1_POL = ["Basic128Rsa15", "Basic256"]       # signature length 20


def body(run):
    q = run.quick()
    exe = [None]
    jobs = [
        lambda: run.tlc("ScRecv", "ScRecv_MC", "ScRecv_c09_mc.cfg", workers=2, label="contract: 18 damage classes, budget 2, Sign and SignAndEncrypt"),
        lambda: run.tlc("ScRecv", "ScRecv_MC", "ScRecv_c09_dev.cfg", workers=1, expect="violation", count=False,
                        label="deviation demo: missing length check violates InvNoCrash"),
        lambda: run.tlc("ScRecv", "ScRecv_MC", "ScRecv_c09_gen_q.cfg" if q else "ScRecv_c09_gen_t.cfg", mode="gen", count=False,
                        label="behaviours with damaged chunks"),
        lambda: run.tlc("ScRecv", "ScRecv_MC", "ScRecv_c09_sweep_q.cfg" if q else "ScRecv_c09_sweep_t.cfg", mode="gen", count=False,
                        label="sweeps: every byte position / truncation length (signature length 32)"),
        lambda: run.tlc("ScRecv", "ScRecv_MC", "ScRecv_c09_gen_inj.cfg", mode="gen", count=False,
                        label="behaviours: a frame of the adversary's own (OPN naming policy None, unknown type) and a forged / damaged chunk"),
        lambda: exe.__setitem__(0, run.go_build("screcv")),
    ]
    if not q:
        jobs.append(lambda: run.tlc("ScRecv", "ScRecv_MC", "ScRecv_c09_sweep_t20.cfg", mode="gen", count=False,
                                    label="sweeps (signature length 20)"))
    res = run.parallel(*jobs)
    behs = [b for b in res[2].rows if sc.nontrivial(b)]
    sweeps = res[3].rows
    sweeps20 = res[6].rows if not q else []
    inj = [b for b in res[4].rows if any(s["in"] == "inject" for s in b["steps"]) and
           (b.get("pre", "none") != "none" or any(s["in"] == "damage" for s in b["steps"]))]
    mp = MODE_POL_Q if q else MODE_POL_T
    cases = []
    salt = 0
    for side in ("server", "client"):
        for mode, pols in mp.items():
            for pol in pols:
                salt += 1
                mine = [b for b in behs if b["mode"] == mode]
                for b in sc.sample(mine, run.pick(36, 400 if pol == "Basic256Sha256" else 80), run.seed, salt):
                    c = dict(b)
                    c.update({"prop": "C09", "policy": pol, "side": side, "sender": "real", "salt": salt})
                    cases.append(c)
                # frames of the adversary's own (incl. forged OPN chunks with a stranger's / a non-RSA / a garbage
                # certificate), after the channel is open and -- pre -- in front of the handshake
                for b in sc.stratified([b for b in inj if b["mode"] == mode], lambda r: r.get("pre"), run.pick(4, 30 if pol == "Basic256Sha256" else 4), run.seed, salt + 100):
                    c = dict(b)
                    c.update({"prop": "C09", "policy": pol, "side": side, "sender": "real", "salt": salt})
                    cases.append(c)
                if pol == "Basic256Sha256":
                    for b in [s for s in sweeps if s["mode"] == mode]:
                        c = dict(b)
                        c.update({"prop": "C09", "policy": pol, "side": side, "sender": "real", "salt": salt})
                        cases.append(c)
        if not q:
            for mode in ("Sign", "SignAndEncrypt"):
                for pol in SHA1_POL:
                    salt += 1
                    for b in sc.sample([b for b in behs if b["mode"] == mode], 60, run.seed, salt):
                        c = dict(b)
                        c.update({"prop": "C09", "policy": pol, "side": side, "sender": "real", "salt": salt})
                        cases.append(c)
                    if pol == "Basic256":
                        for b in [s for s in sweeps20 if s["mode"] == mode and s["sweep"]["from"] < 96]:
                            c = dict(b)
                            c.update({"prop": "C09", "policy": pol, "side": side, "sender": "real", "salt": salt})
                            cases.append(c)
    run.log("TLC: %d states; %d behaviours, %d sweeps; %d cases to replay" % (
        run.cov["states"], len(behs), len(sweeps) + len(sweeps20), len(cases)))
    tpath = run.tmp("traces.ndjson")
    results = run.go_run(exe[0], ["-par", "6", "-trace", tpath], cases=cases, timeout=run.pick(900, 3000))
    if len(results) != len(cases):
        raise vf.Inconclusive("harness returned %d results for %d cases" % (len(results), len(cases)))
    for r in results:
        c = r.get("case", {})
        if c.get("sweep", {}).get("kind", "none") != "none":
            r["class"] = "C09/%s/%s/%s/%s@%d" % (c.get("side"), c.get("policy"), c.get("mode"), c["sweep"]["kind"], c["sweep"]["from"])
            r["nontrivial"] = True
    sc.log_inconclusive(run, results)
    run.absorb(results)
    # code -> spec: TLC validates the recorded inputs + receiver events against the receiver of ScRecv
    ok, n = sc.validate_traces(run, tpath, "trace validation of the replayed behaviours")
    if ok:
        run.cov["traces_validated_against_impl"] += n
        bad, _ = sc.validate_traces(run, tpath, "binding self-test: one recorded verdict flipped", corrupt=True)
        if bad is not False:
            raise vf.Inconclusive("trace validation accepted a corrupted trace")
        run.cov["corrupted_trace_rejected"] = True
    elif ok is False and not run.violations:
        run.violation("%s:recorded-trace-not-a-behaviour-of-the-specification" % run.prop.lower(),
                      "TLC rejects the recorded receiver events (see out/log/%s)" % run.prop)

    run.cov["behaviours_generated"] = len(behs)
    run.cov["sweeps_generated"] = len(sweeps) + len(sweeps20)
    run.cov["rule"] = ("one case per (TLC behaviour with damaged chunk(s) | sweep segment of 8 consecutive byte positions / lengths, policy, mode, "
                       "receiving side); class = receiver x policy x mode x multiset of (damage class, chunk kind, specified outcome)")
    run.assumptions += [
        "a rejected chunk is one for which Receive returns an error without the chunk having passed readChunk (recv.chunk hook); the kind of error is not constrained",
        "a chunk whose size field was rewritten loses the framing: only 'never accepted, no crash' is demanded for what follows; a chunk rewritten to type CLO may close the channel",
        "a message that lost a chunk to the adversary may be delivered (garbled) or refused: C09 does not demand gap detection",
        "byte positions inside a damage class and the rewritten values are seeded; the sweeps visit every position / length of one small chunk",
    ]


vf.main(body, "C09", design_ref="S5/C09")
