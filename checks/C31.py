# C31 -- node access levels are enforced for value reads and writes.
# spec/ServerCore (InvAccess): TLC proves the contract on the access model (8 x 8 level classes
# incl. missing / wrongly typed attributes), shows that ignoring the level on write or read
# violates it, and generates every read/write script of the bounded length for every class.
# The scripts run against the real server through a raw client; the recorded answers and the
# privileged reading of the stored value are validated by TLC against ServerCoreTrace
# (one-directional oracle: present, well-typed level lacking the bit => no value / refused
# and unchanged; missing or wrongly typed attributes leave the outcome open).
import vf
import servercore_common as sc


def body(run):
    q = run.quick()
    sc.core_check(
        run, "C31", [(run.pick("ServerCoreGen_access_q.cfg", "ServerCoreGen_access_t.cfg"), None, None),
                     # histories in which the application changes the levels at run time (seeded simulation)
                     ("ServerCoreGen_access_dyn.cfg", run.pick(25, 400), 6)],
        mc_cfgs=[("ServerCore_mc_access.cfg", "contract: InvAccess over all level classes and read/write histories")],
        dev_cfgs=[("ServerCore_dev_write-ignores-access.cfg", "deviation demo: write ignores the access level"),
                  ("ServerCore_dev_read-ignores-access.cfg", "deviation demo: read ignores the access level")])
    run.cov["rule"] = ("one script per (AccessLevel class, UserAccessLevel class, read/write sequence); class = both level "
                       "classes x sequence; exhaustive up to the length bound (2 quick / 3 thorough requests)")
    run.assumptions += [
        "levels: missing, wrong Go type (uint32), null variant, 0, 1, 2, 3, 7; values are int32; one node per class pair",
        "a missing attribute restricts nothing; a present attribute that is not a byte (wrong type, null) lacks both bits",
        "levels are also changed at run time through Node.SetAttribute (application API) between requests",
        "a refused request must leave the stored value unchanged (checked through a privileged in-process read)",
    ]


vf.main(body, "C31", design_ref="S10/C31")
