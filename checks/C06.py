# C06 -- negotiated transport limits are honoured in both directions.
# spec/UacpNegotiation/UacpNegotiation.tla: Hello / SrvAck / CliAdopt / SendMsg / RecvMsg with the
# effective limits of both sides; InvFits, InvAccepts (+ InvAcceptLimit), InvRefuse proved by TLC
# for the contract, four deviation demos (one per Dev_* flag) must each violate one of them.
# Binding, both directions:
#   spec -> code: TLC emits every configuration pair in bounds with the message sizes around the
#                 limits derived from it; a seeded sample of (configuration, direction, size)
#                 scenarios is run on a real gopcua client channel and server channel
#                 (harness/cmd/negotiate over harness/chanpair, frame-level tap).
#   code -> spec: the recorded wire trace (Hello, Acknowledge, per message: encoded size, chunk
#                 sizes on the wire, send result, receive result) is validated by TLC against
#                 UacpNegotiationTrace under the as-is configuration (Dev_* flags of the open
#                 findings); while replaying, the contract predicates Fits/Accepts/Refuses are
#                 evaluated on every message and reported per trace.
# A trace the as-is specification rejects, or a violated predicate whose key is not an open
# finding, is a VIOLATION.
import json
import os
import random
import re
import vf

SECURED = [("Basic256Sha256", "Sign"), ("Basic256Sha256", "SignAndEncrypt"), ("Basic128Rsa15", "Sign"),
           ("Aes128_Sha256_RsaOaep", "SignAndEncrypt"), ("Aes256_Sha256_RsaPss", "Sign")]
FLAGS = ["Dev_AdoptAckVerbatim", "Dev_ServerIgnoresHello", "Dev_NoSendLimit", "Dev_ServerZeroIsLimit"]  # Dev_AbortLeaksChunks: demo only
KEYS = {
    "fits:c2s": ("client-chunk-exceeds-server-receive-buffer",
                 "the client sent a chunk larger than the receive buffer in the server's Acknowledge"),
    "fits:s2c": ("server-chunk-exceeds-client-receive-buffer",
                 "the server sent a chunk larger than the receive buffer in the client's Hello"),
    "accepts:s2c": ("client-rejects-chunk-the-server-may-send",
                    "the client refused a chunk not larger than min(server send buffer, own receive buffer)"),
    "accepts:c2s": ("server-rejects-chunk-the-client-may-send",
                    "the server refused a chunk not larger than min(client send buffer, own receive buffer)"),
    "refuse:c2s": ("over-limit-request-put-on-wire",
                   "a request above the Acknowledge's message size / chunk count was sent instead of refused"),
    "refuse:s2c": ("over-limit-response-put-on-wire",
                   "a response above the Hello's message size / chunk count was sent instead of refused"),
    "accepts-limit0:c2s": ("server-treats-limit-0-as-zero",
                           "the server refused a message although its limit 0 means unlimited"),
    "accepts-limit0:s2c": ("client-treats-limit-0-as-zero",
                           "the client refused a message although its limit 0 means unlimited"),
    "accepts-limit:s2c": ("client-applies-acknowledge-limits-to-responses",
                          "the client refused a response inside the limits of its own Hello (it applied the "
                          "Acknowledge's request limits)"),
    "accepts-limit:c2s": ("server-applies-unadvertised-limit-to-requests",
                          "the server refused a request inside the limits of its own Acknowledge"),
}


def open_flags():
    """Dev_* flags named by the open C06 entries of the findings files = the as-is configuration."""
    on = set()
    import glob
    for p in [os.path.join(vf.VERIF, "known-findings.txt")] + sorted(glob.glob(os.path.join(vf.VERIF, "findings", "*.txt"))):
        if not os.path.exists(p):
            continue
        for line in open(p):
            m = re.match(r"\s*open:\s+property=C06\s+(.*)", line)
            if m:
                on.update(re.findall(r"flag=(Dev_\w+)", m.group(1)))
    return on


def body(run):
    q = run.quick()
    os.environ.setdefault("JAVA_TOOL_OPTIONS", "-XX:ParallelGCThreads=2")
    F, M = "UacpNegotiation", "UacpNegotiation"
    exe = [None]
    jobs = [
        lambda: run.tlc(F, M, M + ("_mc_quick.cfg" if q else "_mc.cfg"), timeout=3000,
                        label="contract: InvFits, InvAccepts, InvAcceptLimit, InvRefuse for all configurations x sizes"),
        lambda: run.tlc(F, M, M + ("_gen_quick.cfg" if q else "_gen.cfg"), mode="gen", count=False, timeout=3000,
                        label="rows: configuration pairs with the message sizes around their limits"),
        lambda: exe.__setitem__(0, run.go_build("negotiate")),
    ]
    for d in (["adopt", "abort"] if q else ["adopt", "ignore", "nosend", "zero", "abort"]):
        jobs.append(lambda d=d: run.tlc(F, M, M + "_dev_%s.cfg" % d, expect="violation", count=False,
                                        label="deviation demo %s must violate an invariant" % d))
    res = run.parallel(*jobs)
    rows = res[1].rows
    scen = []
    for r in rows:
        for n in r["req"]:
            scen.append({"ccfg": r["ccfg"], "scfg": r["scfg"], "dir": "c2s", "len": n})
        for n in r["resp"]:
            scen.append({"ccfg": r["ccfg"], "scfg": r["scfg"], "dir": "s2c", "len": n})
    if len(scen) < 100:
        raise vf.Inconclusive("TLC emitted only %d scenarios" % len(scen))
    scen.sort(key=lambda s: json.dumps(s, sort_keys=True))
    rnd = random.Random(run.seed)

    def kind(s):
        peer = s["scfg"] if s["dir"] == "c2s" else s["ccfg"]
        n = s["len"]
        bufs = {s["ccfg"]["rb"], s["ccfg"]["sb"], s["scfg"]["rb"], s["scfg"]["sb"]}
        if n == 100:
            k = "small"
        elif peer["mm"] and n in (peer["mm"], peer["mm"] + 1):
            k = "mm"
        elif peer["mc"] and any(n in (peer["mc"] * (b - 24), peer["mc"] * (b - 24) + 1) for b in bufs):
            k = "mc"
        else:
            k = "buf"
        # a server with MaxMessageSize 0 refuses the OpenSecureChannel already (known finding)
        return (s["dir"], k, s["scfg"]["mm"] != 0)
    groups = {}
    for s in scen:
        groups.setdefault(kind(s), []).append(s)
    n = run.pick(160, 1600)
    pick = []
    # equal quota per (direction, size kind); configurations whose server accepts nothing get 1/5
    for gk in sorted(groups):
        quota = max(1, (n // 8) if gk[2] else (n // 40))
        g = groups[gk]
        pick += rnd.sample(g, min(quota, len(g)))
    sym = [s for s in scen if len({s["ccfg"]["rb"], s["ccfg"]["sb"], s["scfg"]["rb"], s["scfg"]["sb"]}) == 1
           and kind(s)[1] == "mc" and s["scfg"]["mm"] != 0]
    pick += rnd.sample(sym, min(n // 8, len(sym)))   # messages of exactly the chunk count limit, preceded by aborts
    for i, s in enumerate(pick):
        s = dict(s)
        s["id"] = i + 1
        s["decoy"] = rnd.random() < 0.5    # a second connection from the same client Acknowledge object
        s["sdecoy"] = rnd.random() < 0.5   # a second client (8192/8192) on the same uacp.Listener
        k = kind(s)
        multi = s["len"] > 8192            # at least two chunks for the smallest buffer
        # aborted helper messages are large: they need a connection on which large messages pass in
        # both worlds (contract and as-is), i.e. one buffer size on all four sides
        same = len({s["ccfg"]["rb"], s["ccfg"]["sb"], s["scfg"]["rb"], s["scfg"]["sb"]}) == 1
        if same and (k[1] == "mc" or (multi and rnd.random() < 0.3)):
            # messages given up after 1-2 intermediate chunks and aborted, then the message under test
            # (for kind "mc": a message of exactly the negotiated chunk count)
            s["aborts"] = rnd.choice([[1], [1, 1], [2], [1, 1, 1], [2, 1]])
        elif s["len"] != 100 and rnd.random() < 0.45:
            # the same scenario on a signed / encrypted channel: chunk sizes as written under security
            s["policy"], s["mode"] = SECURED[(i + run.seed) % len(SECURED)]
        pick[i] = s
    run.log("TLC: %d states; %d of %d scenarios sampled" % (run.cov["states"], len(pick), len(scen)))
    results = run.go_run(exe[0], ["-workers", "12"], cases=pick, timeout=2400)
    run.save_text("undriven-seed%d-%s.ndjson" % (run.seed, run.tier),
                  "".join(json.dumps(r) + "\n" for r in results if r.get("status") != "ok"))
    traces = {}
    for r in results:
        if r.get("status") == "ok" and r.get("obs"):
            traces[r["case"]["id"]] = r
        else:
            run.inconclusive.append(r)
        run.cov["evaluations"] += 1
    if len(traces) < 0.9 * len(pick):
        raise vf.Inconclusive("only %d of %d scenarios produced a trace: %s" % (
            len(traces), len(pick), json.dumps(run.inconclusive[:2])[:600]))

    # ---- code -> spec: TLC validates the recorded traces against the as-is specification.
    # As-is = the Dev_* flags of the open findings.  A trace that this configuration rejects is
    # tried again with fewer deviations (a repaired defect makes the code behave like the contract
    # for that flag; flags only ever move towards the contract); a trace that no configuration
    # accepts is a violation.  The contract predicates are evaluated on every accepted trace
    # whatever configuration accepted it.
    import itertools
    on = sorted(open_flags())
    base = open(os.path.join(vf.VERIF, "spec", F, "UacpNegotiationTrace_base.cfg")).read()
    loc = open(os.path.join(vf.VERIF, "spec", F, "UacpNegotiationTrace_locate.cfg")).read()

    def cfgtext(text, flagset):
        return text.replace("  Emit = FALSE\n", "".join(
            "  %s = %s\n" % (f, "TRUE" if f in flagset else "FALSE") for f in FLAGS) + "  Emit = FALSE\n")

    def tracefile(tids):
        lines = []
        for tid in tids:
            for e in traces[tid]["obs"]:
                lines.append(json.dumps({k: v for k, v in e.items() if k not in ("detail", "call", "kind")}))
            lines.append(json.dumps({"ev": "end"}))
        return "\n".join(lines) + "\n"

    run.cov["as_is_flags"] = on
    flagged, accepted_by = {}, {}
    # as-is, then as-is minus one flag (one defect repaired), then the contract
    subsets = [set(on)] + [set(on) - {f} for f in on] + ([set()] if len(on) > 1 else [])

    def validate(todo):
        """returns the ids no configuration accepts"""
        for sub in subsets:
            if not todo:
                break
            tr = run.tlc(F, "UacpNegotiationTrace", "asis.cfg", mode="trace", count=False, timeout=1800,
                         files={"trace.ndjson": tracefile(todo), "asis.cfg": cfgtext(base, sub)},
                         label="trace validation, deviations %s (%d traces)" % (sorted(sub) or "none", len(todo)))
            if not tr.ok:
                run.save_text("tlc-trace.out", tr.out)
                run.save_text("tlc-trace.ndjson", tracefile(todo))
                raise vf.Inconclusive("trace validation run failed: %s" % (tr.error or tr.violated))
            for r in tr.rows:
                flagged[r["id"]] = r["flags"]
                accepted_by[r["id"]] = sorted(sub)
            todo = [t for t in todo if t not in flagged]
        return todo

    todo = validate(sorted(traces))
    if todo:
        # a rejected trace is recorded a second time before it counts: a chunk list cut short by a
        # slow proxy must not become a verdict
        run.log("%d traces rejected, recording them again" % len(todo))
        again = run.go_run(exe[0], ["-workers", "4"], cases=[traces[t]["case"] for t in todo], timeout=1200)
        for r in again:
            if r.get("status") == "ok" and r.get("obs"):
                traces[r["case"]["id"]] = r
        run.cov["traces_recorded_twice"] = len(todo)
        todo = validate(todo)
    run.save_text("traces-seed%d-%s.ndjson" % (run.seed, run.tier),
                  "".join(json.dumps({"case": traces[t]["case"], "obs": traces[t]["obs"]}) + "\n" for t in sorted(traces)))
    run.cov["traces_accepted_with_fewer_deviations"] = sum(1 for t in accepted_by.values() if t != on)
    rejected = []
    for bad in todo[:5]:   # locate the first event that is no step of the as-is specification
        tr = run.tlc(F, "UacpNegotiationTrace", "loc.cfg", mode="trace", count=False, timeout=600,
                     files={"trace.ndjson": tracefile([bad]), "loc.cfg": cfgtext(loc, set(on))},
                     label="locating the rejected event of trace %s" % bad)
        m = re.search(r'"STUCK (\d+)"', tr.out)
        obs = traces[bad]["obs"]
        ev = obs[min(int(m.group(1)), len(obs)) - 1] if m else {"ev": "?"}
        rejected.append((bad, ev))
    rejected += [(bad, {"ev": "?"}) for bad in todo[5:]]
    skipped = set()
    for bad, ev in rejected:
        c = traces[bad]["case"]
        run.violation("trace-not-a-behaviour-of-the-as-is-specification:%s-%s" % (ev.get("ev"), ev.get("dir", "")),
                      "event %s of scenario %s is not a step of UacpNegotiation under %s (nor with one deviation "
                      "less, nor under the contract)" % (json.dumps(ev), json.dumps(c), on or "the contract"),
                      case={"scenario": c, "trace": traces[bad]["obs"]})
    ok = 0
    for tid, r in traces.items():
        if tid in [b for b, _ in rejected]:
            continue
        if tid in skipped:
            run.inconclusive.append({"case": r["case"], "detail": "not validated: too many rejected traces before it"})
            continue
        fl = flagged.get(tid)
        if fl is None:
            run.inconclusive.append({"case": r["case"], "detail": "no verdict row from TLC"})
            continue
        ok += 1
        run.classes.add(r.get("class"))
        for f in fl:
            key, text = KEYS.get(f, ("contract-predicate-" + f, f))
            run.violation(key, "%s; scenario %s" % (text, json.dumps(r["case"])),
                          case={"scenario": r["case"], "trace": r["obs"]})
        if not fl and len(run.cov["samples"]) < 4:
            run.cov["samples"].append({"case": r["case"], "obs": r["obs"]})
    run.cov["traces_validated_against_impl"] += ok
    run.cov["scenarios_total"] = len(scen)
    run.cov["rule"] = ("one case per (client configuration, server configuration, direction, message size) scenario; "
                       "sizes are the chunk-body boundaries of all four buffers and the message-size / chunk-count "
                       "limits +-1 computed by TLC; class = configuration pair x direction; each trace carries the "
                       "handshake and 1-2 messages with their chunk sizes from the wire")
    run.assumptions += [
        "about a third of the multi-chunk scenarios run on Sign / SignAndEncrypt channels (5 policy/mode pairs): there the "
        "chunk sizes are the ones written under security and the message size is the plain encoded size; "
        "OpenSecureChannel is recorded only when it fails",
        "aborted partial messages are produced under policy None by the frame proxy, which turns a chunk of a real "
        "message into the MSGA chunk and drops the rest",
        "receive results are classified ok / chunk-too-large / too-many-chunks / message-too-large / other error by "
        "error text; 'other error' is accepted for any non-ok verdict of the specification",
        "a refused over-limit message is recognised by: send call returned an error and no chunk reached the wire",
        "quick: seeded sample of 160 scenarios of the TLC-emitted set, thorough 1600",
    ]


vf.main(body, "C06", design_ref="S2/C06")
