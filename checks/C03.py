# C03 -- any successfully decoded value can be re-encoded and decodes identically.
# spec/Codec: InvReencode over canonical and non-canonical token streams (unused mask / flag bits, unknown
# extension object type ids, zero-length bodies, dimension flag without array flag, numeric encodings of small
# node ids, empty-not-null strings, trailing bytes in bodies).  TLC proves the contract decoder/encoder pair
# re-encodes everything it decodes; the deviation demo (unknown extension object body dropped) must be caught;
# every stream is replayed in a child process: ua.Decode, ua.Encode of the result, ua.Decode again.
import codec_common as cc
import vf


def body(run):
    q = run.quick()
    exe = run.go_build("codec")
    files = cc.schema_files(run, exe)
    res = run.parallel(
        lambda: run.tlc("Codec", "Codec", "Codec_streams_gen.cfg", mode="gen", timeout=3000,
                        label="contract InvReencode + rows: canonical and non-canonical streams"),
        lambda: run.tlc("Codec", "Codec", "Codec_dev_xobj.cfg", expect="violation", count=False,
                        label="deviation demo: dropping the body of an unknown ExtensionObject violates InvReencode"),
        lambda: cc.value_rows(run, count=False),
        lambda: cc.struct_rows(run, files, not q, count=False))
    rows = res[0].rows
    if res[0].distinct != len(rows):
        raise vf.Inconclusive("streams: %d states but %d rows" % (res[0].distinct, len(rows)))
    # streams for every built-in value and every registered structure: the canonical encoding (TLC's tokens)
    # and non-canonical variants with one bit flipped in one of the positions the model marks as masks
    xrows = cc.derive(run, exe, "c03derive", res[2].rows + res[3].rows, run.pick(1, 4))
    run.log("TLC: %d states; %d model rows + %d derived streams" % (run.cov["states"], len(rows), len(xrows)))
    results = run.go_run(exe, ["-mode", "c03"], cases=rows + xrows, timeout=3000)
    if len(results) != len(rows) + len(xrows):
        raise vf.Inconclusive("harness returned %d results for %d rows" % (len(results), len(rows) + len(xrows)))
    run.absorb(results)
    run.cov["rows_model"] = len(rows)
    run.cov["rows_derived"] = len(xrows)
    run.cov["rule"] = ("one case per TLC state (target type x stream, canonical or not, decodes or not) plus the canonical encoding and "
                       "mask-bit variants of every built-in value and every registered structure x recipe; class = type x canonical x decodes")
    run.assumptions += [
        "equality of the two decodes is up to the documented normalisations (NaN payloads, nil vs empty)",
        "a stream whose first decode fails or panics is outside C03 (C02 decides it)",
    ]


vf.main(body, "C03", design_ref="S12/C03")
