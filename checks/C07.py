# C07 -- secure channel chunking round-trips every message under every policy and mode.
#   TLC     : chunker / wire / merger machine of spec/ChunkLayout (one action per chunk written /
#             read) for all 11 policy/mode pairs, chunk sizes and body sizes k*MaxBody+{-1,0,1}:
#             InvFits, InvMsgSize, InvKinds, InvRoundTrip, InvBodyBound; two deviation demos
#             (short intermediate chunk, intermediate chunk marked final) must be caught
#   binding : every terminal state is a row (policy, mode, chunk size, body size, expected chunk
#             list); a real channel pair is opened per (policy, mode, chunk size) and a message of
#             exactly that encoded body size is sent client->server and server->client; the chunks
#             on the wire (frame proxy) are compared with the row / the contract and the peer
#             channel must deliver the identical message.  OPN chunks of every admissible RSA key
#             size are covered by opening pairs with those keys.
import layoutlib as ll
import vf


def body(run):
    q = run.quick()
    if q:
        sizes = [8192, 8193, 8207, 65535] + ll.seeded_sizes(run.seed, 2, hi=1 << 18)
        ks = (1, 2, 3)
        extra = (100, 5000)
    else:
        sizes = list(range(8192, 8192 + 33)) + [(1 << k) + d for k in range(14, 21) for d in (-1, 0, 1) if (1 << k) + d <= 1 << 20] + \
                ll.seeded_sizes(run.seed, 20)
        ks = (1, 2, 3, 4)
        extra = (100, 5000, 70000)
    gen_cfg = ll.cfg(sizes, ks=ks, extra=extra, emit=True, invs=("InvFits", "InvKinds", "InvRoundTrip", "InvEmit"))
    mc_cfg = ll.cfg(sizes, ks=(0,) + ks, extra=(0, 1) + extra, invs=ll.MACHINE_INVS)
    exe = [None]
    res = run.parallel(
        lambda: run.tlc("ChunkLayout", "ChunkLayout", "mc.cfg", files={"mc.cfg": mc_cfg},
                        label="contract: chunker/merger machine, all policy/mode pairs", timeout=3000),
        lambda: run.tlc("ChunkLayout", "ChunkLayout", "dev1.cfg",
                        files={"dev1.cfg": ll.cfg([8192], ks=(1, 2), invs=ll.MACHINE_INVS, dev_short=True)},
                        expect="violation", count=False, label="deviation demo: short intermediate chunk violates InvRoundTrip"),
        lambda: run.tlc("ChunkLayout", "ChunkLayout", "dev2.cfg",
                        files={"dev2.cfg": ll.cfg([8192], ks=(1, 2), invs=ll.MACHINE_INVS, dev_final=True)},
                        expect="violation", count=False, label="deviation demo: intermediate chunk marked final violates InvKinds"),
        lambda: run.tlc("ChunkLayout", "ChunkLayout", "gen.cfg", files={"gen.cfg": gen_cfg}, mode="gen", count=False,
                        label="rows: policy x mode x chunk size x body size", timeout=3000),
        lambda: exe.__setitem__(0, run.go_build("layout")),
    )
    rows = res[3].rows
    table = [r for r in rows if "table" in r]
    rows = [r for r in rows if "table" not in r]
    # OPN chunks / mixed key sizes: pairs with every admissible key size on either side (one small row each)
    keyrows = []
    pols = table[0]["asym"]
    names = {128: "1024a", 256: "2048a", 384: "3072a", 512: "4096a"}
    base = [r for r in rows if r["cs"] == 8192 and r["n"] == r["maxBody"] + 1]
    for r in base:
        if r["pol"] == "None":
            continue
        a = pols[r["pol"]]
        ok = [b for b in sorted(names) if a["minKey"] <= b <= a["maxKey"]]
        pairs = [(c, s) for c in ok for s in ok if (c, s) != (256, 256)]
        if q:
            pairs = [p for p in pairs if p[0] != p[1]][:2] if r["mode"] == "Sign" else pairs[:3]
        for c, s in pairs:
            rr = dict(r)
            rr["ckey"], rr["skey"] = names[c], ("2048b" if s == 256 else names[s])
            keyrows.append(rr)
    run.log("TLC: %d states; %d rows + %d key-size rows" % (run.cov["states"], len(rows), len(keyrows)))
    if len(rows) < 100:
        raise vf.Inconclusive("only %d rows generated" % len(rows))
    ll.corrupt_rows(run, rows)
    results = run.go_run(exe[0], ["-prop", "C07", "-workers", "8" if q else "12"], cases=table + rows + keyrows, timeout=3000)
    traces = [r for r in results if isinstance(r.get("obs"), dict) and "trace" in r["obs"]]
    results = [r for r in results if not (isinstance(r.get("obs"), dict) and "trace" in r["obs"])]
    run.absorb(results)
    ll.show_inconclusive(run)
    # code -> spec: the recorded events (chunk passed the proxy / peer verified a chunk / message delivered)
    # of every message must be a behaviour of the chunker machine (ChunkTrace)
    events = [e for t in traces for e in t["obs"]["trace"]]
    nmsg = len([e for e in events if e["ev"] == "msg"])
    alt = any("alt-chunking" in (r.get("class") or "") for r in results)
    if events and not run.violations and not alt:
        import json, os, re
        if os.environ.get("VERIF_CORRUPT"):
            i = [k for k, e in enumerate(events) if e["ev"] == "recv"][len(events) // 7]
            events[i] = dict(events[i], body=events[i]["body"] + 1)
            run.log("VERIF_CORRUPT: body length of one recorded recv event changed; TLC must reject the trace")
        text = "".join(json.dumps(e) + "\n" for e in events)
        tr = run.tlc("ChunkLayout", "ChunkTrace", "ChunkTrace.cfg", mode="trace", files={"trace.ndjson": text},
                     label="trace: %d messages (%d events) recorded on real channel pairs validated against the chunker machine" % (nmsg, len(events)),
                     timeout=2400)
        if tr.ok:
            run.cov["traces_validated_against_impl"] += nmsg
        elif tr.violated in ("InvAccepted", "InvTraceFits"):
            m = re.findall(r"\bbad = (\d+)", tr.out)
            k = int(m[-1]) if m else 0
            ctx = events[max(0, k - 4):k]
            run.violation("chunk-trace-rejected-by-spec", "TLC (ChunkTrace!%s) rejects recorded event %d: %s" % (tr.violated, k, json.dumps(ctx)), case=ctx)
        else:
            run.save_text("tlc-ChunkTrace.out", tr.out)
            raise vf.Inconclusive("ChunkTrace did not run: %s" % (tr.error or tr.violated))
    elif alt:
        run.notes.append("the tree cuts messages differently from the modelled chunker; trace validation against the modelled cut skipped, contract applied")
    run.cov["rows"] = len(rows)
    run.cov["key_size_rows"] = len(keyrows)
    run.cov["chunk_sizes"] = sorted(set(sizes))
    run.cov["rule"] = ("one case per TLC terminal state (policy, mode, chunk size, body size) and direction; class = policy x mode x "
                       "chunk size mod 16 x number of chunks x kind of last chunk (empty / short / full) x direction")
    run.assumptions += ["message bodies below the smallest encodable request (58 bytes) / response are not sent",
                        "the same chunk size is negotiated in both directions",
                        "a different cut of a message into chunks than the modelled one is accepted if it meets the stated contract"]


vf.main(body, "C07", design_ref="S3/C07")
