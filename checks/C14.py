# C14 -- symmetric keys follow the specification and are direction-separated.
#   spec    : spec/Crypto -- symbolic key terms K(secret, seed, offset, length, hash) of Part 6 6.7.5, the
#             implementation's local/remote assignment (Derive), Protect / Open with reflection by the
#             adversary; TLC proves InvSpecKeys, InvOffsets, InvDelivery, InvSeparation for all policies,
#             nonce shapes (equal nonces included: there separation cannot hold) and nonce lengths; two
#             deviation demos (send with the local key set; encrypting key at offset 0) must be caught.
#   binding : every initial state is a row (terms + accept/reject matrix).  The harness evaluates the terms
#             with an independent P_SHA (harness/refcodec, crypto/hmac) on concrete nonces (structured and
#             seeded random) and compares with uapolicy.Symmetric bit by bit: HMAC and AES-CBC are
#             deterministic, so equal signatures / ciphertexts mean equal keys and IVs.  The matrix is
#             replayed (peer accepted, own traffic rejected), and on real channel pairs a real chunk is
#             reflected to its sender in every policy and mode (hook recv.chunk must not fire).
import cryptolib
import vf


def body(run):
    cryptolib.tables_identical()
    q = run.quick()
    exe = [None]
    res = run.parallel(
        lambda: run.tlc("Crypto", "Crypto", "Crypto_sym.cfg", label="contract: key terms, delivery, separation"),
        lambda: run.tlc("Crypto", "Crypto", "Crypto_sym_dev_swap.cfg", expect="violation", count=False,
                        label="deviation demo: protecting with the local key set violates InvSpecKeys"),
        lambda: run.tlc("Crypto", "Crypto", "Crypto_sym_dev_off.cfg", expect="violation", count=False,
                        label="deviation demo: encrypting key at offset 0 violates InvSpecKeys/InvOffsets"),
        lambda: run.tlc("Crypto", "Crypto", "Crypto_sym_gen.cfg", mode="gen", count=False, label="rows: policy x nonce shapes x nonce length"),
        lambda: exe.__setitem__(0, run.go_build("crypto")),
    )
    rows = res[3].rows
    table = [r for r in rows if "table" in r]
    sym = [r for r in rows if r.get("kind") == "sym"]
    if len(sym) < 5 * 16 * 3:
        raise vf.Inconclusive("only %d rows" % len(sym))
    # repeat the random-nonce rows with fresh seeded nonces
    reps = 4 if q else 200
    extra = [r for r in sym if "random" in (r["cshape"], r["sshape"])] * reps
    chan = [{"kind": "channel", "pol": p, "mode": m} for p in table[0]["sym"] if p != "None" for m in ("Sign", "SignAndEncrypt")]
    if not q:
        chan = chan * 3
    import os
    if os.environ.get("VERIF_CORRUPT"):
        sym[7] = dict(sym[7]); sym[7]["clientSend"] = dict(sym[7]["clientSend"]); sym[7]["clientSend"]["enc"] = dict(sym[7]["clientSend"]["enc"], off=sym[7]["clientSend"]["enc"]["off"] + 1)
        run.log("VERIF_CORRUPT: offset of one key term changed; the replay must reject it")
    run.log("TLC: %d states; %d rows (+%d repetitions with fresh nonces, %d channel reflections)" % (run.cov["states"], len(sym), len(extra), len(chan)))
    results = run.go_run(exe[0], [], cases=table + sym + extra + chan, timeout=2400)
    if len(results) != len(sym) + len(extra) + len(chan):
        raise vf.Inconclusive("harness returned %d results for %d cases" % (len(results), len(sym) + len(extra) + len(chan)))
    run.absorb(results)
    for r in run.inconclusive[:5]:
        run.log("inconclusive: %s" % str(r)[:400])
    run.cov["rule"] = ("one case per TLC initial state (policy, nonce length class, client/server nonce shape), random shapes repeated "
                       "with fresh seeded nonces; class = policy x nonce length x shapes; plus one reflection per policy x mode on a real channel pair")
    run.assumptions += ["HMAC-SHA1/SHA256 and AES-CBC of Go's standard library are trusted; equal outputs on random inputs are taken as equal keys",
                        "the PRF arithmetic is evaluated on sampled nonces, not proved for all nonces"]


vf.main(body, "C14", design_ref="S13/C14")
