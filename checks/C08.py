# C08 -- secured chunks conform to the OPC UA Part 6 wire layout.
#   spec    : spec/ChunkLayout (policy tables from Part 7, layout of symmetric and asymmetric chunks from
#             Part 6 6.7.2) -- TLC checks the layout theorems (ThmAsymAt: block alignment, padding
#             recoverable from PaddingSize/ExtraPaddingSize for all admissible key pairs; chunk machine)
#             and emits the rows; harness/refcodec is an independent implementation (standard library
#             crypto only, no gopcua import) that takes every length from those rows / tables.
#   binding : (a) every chunk a real gopcua channel emits for a row (MSG, both directions, and the OPN
#             request / response of the pair) is verified and decrypted by refcodec with keys derived
#             by P_SHA from the nonces of the decrypted OPN messages; lengths, padding, signature
#             position as in the row; (b) chunks built by refcodec from the same rows are accepted by
#             the gopcua channels and deliver the identical message; refcodec also plays a complete
#             client against the gopcua server channel and a complete server against the gopcua client
#             channel (OPN + MSG), for all admissible RSA key size combinations (mixed sizes included).
#             (c) code -> spec: the layout record of every opened chunk is validated by TLC (LayoutTrace).
import json
import re

import layoutlib as ll
import vf


def body(run):
    q = run.quick()
    if q:
        sizes = [8192, 8207, 65535] + ll.seeded_sizes(run.seed, 1, hi=1 << 17)
        ks = (1, 2)
    else:
        sizes = list(range(8192, 8192 + 16)) + [65535, 65536, 1 << 17, (1 << 20) - 1] + ll.seeded_sizes(run.seed, 8)
        ks = (1, 2, 3)
    extra = tuple(range(100, 116)) + (5000,)      # every residue modulo the cipher block
    gen_cfg = ll.cfg(sizes, ks=ks, extra=extra, emit=True, invs=("InvFits", "InvKinds", "InvRoundTrip", "InvEmit"))
    mc_cfg = ll.cfg(sizes[:4], ks=(0,) + ks, extra=(0, 1) + extra, invs=ll.MACHINE_INVS)
    exe = [None]
    res = run.parallel(
        lambda: run.tlc("ChunkLayout", "ChunkLayout", "mc.cfg", files={"mc.cfg": mc_cfg},
                        label="contract: symmetric layout + chunk machine", timeout=3000),
        lambda: run.tlc("ChunkLayout", "ChunkLayout", "CL_asym.cfg",
                        label="contract: asymmetric layout for all admissible (sender, receiver) key sizes, bodies 0..520", timeout=3000),
        lambda: run.tlc("ChunkLayout", "ChunkLayout", "gen.cfg", files={"gen.cfg": gen_cfg}, mode="gen", count=False,
                        label="rows: policy x mode x chunk size x body size (all block residues)", timeout=3000),
        lambda: exe.__setitem__(0, run.go_build("layout")),
    )
    rows = res[2].rows
    table = [r for r in rows if "table" in r]
    rows = [r for r in rows if "table" not in r]
    pols = table[0]["asym"]
    names = {128: "1024a", 256: "2048a", 384: "3072a", 512: "4096a"}
    # key size combinations (client, server), mixed sizes first; reference peer rows
    keyrows, peerrows = [], []
    for r in rows:
        if r["pol"] == "None" or r["cs"] != 8192:
            continue
        a = pols[r["pol"]]
        ok = [b for b in sorted(names) if a["minKey"] <= b <= a["maxKey"]]
        pairs = [(c, s) for c in ok for s in ok]
        two = r["n"] == r["maxBody"] + 1
        small = r["n"] in (107, 5000)
        if two or (small and not q):
            sel = [p for p in pairs if p != (256, 256)]
            if q:
                sel = [p for p in sel if p[0] != p[1]]
                sel = sel[:2] + sel[-1:] if r["mode"] == "SignAndEncrypt" else sel[-2:]
            for c, s in sel:
                rr = dict(r); rr["ckey"], rr["skey"] = names[c], ("2048b" if s == 256 else names[s])
                keyrows.append(rr)
        if two or r["n"] == 107 or (not q and r["n"] in (100, 115, 5000)):
            sel = pairs if not q else ([p for p in pairs if p[0] != p[1]][:2] + [(256, 256)] if two else [pairs[-1]])
            for c, s in sel:
                for peer in ("refclient", "refserver"):
                    rr = dict(r); rr["ckey"], rr["skey"], rr["peer"] = names[c], ("2048b" if s == 256 else names[s]), peer
                    peerrows.append(rr)
    run.log("TLC: %d states; %d rows, %d key-size rows, %d reference-peer rows" % (run.cov["states"], len(rows), len(keyrows), len(peerrows)))
    if len(rows) < 100 or not peerrows:
        raise vf.Inconclusive("only %d rows generated" % len(rows))
    results = run.go_run(exe[0], ["-prop", "C08", "-workers", "8" if q else "12"], cases=table + rows + keyrows + peerrows, timeout=3000)
    run.absorb(results)
    ll.show_inconclusive(run)
    # (c) code -> spec: all layout records through TLC
    recs = []
    for r in results:
        o = r.get("obs") or {}
        if r.get("status") == "ok" and isinstance(o, dict):
            recs += o.get("sym", []) + o.get("asym", []) + o.get("recs", [])
    if ll.corrupting() and recs:
        recs[len(recs) // 2] = dict(recs[len(recs) // 2], pad=recs[len(recs) // 2]["pad"] + 1)
        run.log("VERIF_CORRUPT: padding of one observed layout record changed; TLC must reject it")
    nonmin = [e for e in recs if e["ev"] == "asym" and e["blocks"] > 1 and e["pb"] < e["rk"] - pols[e["pol"]]["encPad"]]
    tr = ll.validate_layout_records(run, recs, "trace: %d observed chunk layout records validated against ChunkLayout" % len(recs))
    if tr is None:
        if not run.violations:
            raise vf.Inconclusive("no layout records observed")
    elif tr.ok:
        run.cov["traces_validated_against_impl"] += len(recs)
    elif tr.violated == "InvRec":
        m = re.findall(r"\bl = (\d+)", tr.out)
        bad = recs[int(m[-1]) - 1] if m else {}
        key = "asym-layout-record-rejected-by-spec" if bad.get("ev") == "asym" else "sym-layout-record-rejected-by-spec"
        run.violation(key, "TLC (LayoutTrace!InvRec) rejects the layout of a chunk sent by gopcua: %s" % json.dumps(bad), case=bad)
    else:
        run.save_text("tlc-LayoutTrace.out", tr.out)
        raise vf.Inconclusive("LayoutTrace did not run: %s" % (tr.error or tr.violated))
    run.cov["layout_records"] = len(recs)
    run.cov["rows"] = len(rows)
    run.cov["key_size_rows"] = len(keyrows)
    run.cov["reference_peer_rows"] = len(peerrows)
    if nonmin:
        e = nonmin[0]
        run.notes.append("observation (not a violation of the statement): %d OPN chunks use a plaintext block smaller than the "
                         "scheme allows, e.g. %s key %d bytes: block %d, RSA-OAEP limit %d; a Part 6 receiver decrypts them block by "
                         "block without noticing (uapolicy RSAOAEPMinPaddingSHA256 = 130, RFC 8017 gives 2*32+2 = 66)"
                         % (len(nonmin), e["pol"], e["rk"], e["pb"], e["rk"] - pols[e["pol"]]["encPad"]))
    run.cov["rule"] = ("one case per TLC row and direction and sender (gopcua / refcodec), plus reference-peer cases per key size "
                       "combination; class = policy x mode x chunk size mod 16 x chunks x last-chunk kind x direction x sender")
    run.assumptions += ["crypto primitives (HMAC, AES-CBC, RSA PKCS1v15/OAEP/PSS, SHA-1/256) of Go's standard library are trusted",
                        "service bodies (OpenSecureChannelRequest/Response, Write/Read) are encoded with gopcua's ua package; refcodec covers the chunk layout and key derivation only",
                        "a plaintext block smaller than the scheme's maximum is accepted (a receiver cannot observe it)"]


vf.main(body, "C08", design_ref="S3+S13/C08")
