# C15 -- asymmetric crypto is correct for all lengths and enforces key size limits.
#   spec    : spec/Crypto (relation part): key admission from the Part 7 limits, block structure of RSA
#             encryption (plaintext block <= key size - scheme overhead, blocks add up, whole cipher blocks),
#             signature acceptance matrix.  TLC checks InvAdmission / InvBlocks on every case; deviation
#             demos (no padding deduction; minimum key length 128 for Aes128_Sha256_RsaOaep) must be caught.
#   binding : every TLC state is a row replayed on uapolicy.Asymmetric with the committed keys (512..4096 bit,
#             plus a synthetic 8192 bit modulus for admission): construction accepted/rejected as the row says,
#             Encrypt/Decrypt round trip for every length class, gopcua ciphertext decrypted block-wise by the
#             standard library and standard-library ciphertext in maximal blocks decrypted by gopcua, signatures
#             (made by gopcua and by the standard library) verified / rejected as the matrix says by both.
import cryptolib
import vf


def body(run):
    cryptolib.tables_identical()
    q = run.quick()
    exe = [None]
    res = run.parallel(
        lambda: run.tlc("Crypto", "Crypto", "Crypto_asym.cfg", label="contract: admission and block structure on every case"),
        lambda: run.tlc("Crypto", "Crypto", "Crypto_asym_dev_pad.cfg", expect="violation", count=False,
                        label="deviation demo: plaintext block without padding deduction violates InvBlocks"),
        lambda: run.tlc("Crypto", "Crypto", "Crypto_asym_dev_min.cfg", expect="violation", count=False,
                        label="deviation demo: admitting 1024 bit keys for Aes128_Sha256_RsaOaep violates InvAdmission"),
        lambda: run.tlc("Crypto", "Crypto", "Crypto_asym_gen.cfg", mode="gen", count=False, label="rows: admission / encryption / signature cases"),
        lambda: exe.__setitem__(0, run.go_build("crypto")),
    )
    rows = res[3].rows
    table = [r for r in rows if "table" in r]
    cases = [r for r in rows if "table" not in r]
    if len(cases) < 400:
        raise vf.Inconclusive("only %d rows" % len(cases))
    if not q:
        cases = cases + [r for r in cases if r["kind"] != "admit"] * 5   # fresh seeded plaintexts / messages
    import os
    if os.environ.get("VERIF_CORRUPT"):
        i = [k for k, r in enumerate(cases) if r["kind"] == "admit" and r["lk"] == 256 and r["rk"] == 256][0]
        cases[i] = dict(cases[i], admit=not cases[i]["admit"])
        run.log("VERIF_CORRUPT: expected admission of one case flipped; the replay must reject it")
    run.log("TLC: %d states; %d cases" % (run.cov["states"], len(cases)))
    results = run.go_run(exe[0], [], cases=table + cases, timeout=2400)
    if len(results) != len(cases):
        raise vf.Inconclusive("harness returned %d results for %d cases" % (len(results), len(cases)))
    run.absorb(results)
    for r in run.inconclusive[:5]:
        run.log("inconclusive: %s" % str(r)[:400])
    run.cov["rule"] = ("one case per TLC state: admit = policy x local key x remote key (0 = none, 512..8192 bit); crypt = policy x "
                       "admissible key x length class (0, 1, block-1, block, block+1, 2, 3 blocks +-1); sign = policy x key x tamper case")
    run.assumptions += ["RSA primitives of Go's standard library are trusted",
                        "the statement does not prescribe the ciphertext length: a plaintext block smaller than the scheme's maximum is accepted",
                        "8192 bit keys are represented by a synthetic modulus (admission looks at the size only)"]


vf.main(body, "C15", design_ref="S13/C15")
