# C28 -- monitor notifications name the right node and converge to the latest value.
#
# spec/Monitor/MonitorObs.tla    the contract as predicates over what the application observes
# spec/Monitor/Monitor.tla       the notification pipeline as written (server ChangeNotification,
#                                NotifyChannel, publish queue keyed by client handle, publish,
#                                monitor handle map / pump, add / remove) -- TLC proves the
#                                contract for it; two deviations must break it
# spec/Monitor/MonitorTrace.tla  trace validation of what monitor.NodeMonitor delivered
# harness/cmd/monitor            real NodeMonitor against the real server (child process)
import json
import re

import vf


def to_trace(traces, nodes):
    lines, starts = [], []
    for i, evs in enumerate(traces):
        if i > 0:
            lines.append({"ev": "reset"})
        starts.append(len(lines) + 1)
        for e in evs:
            d = {"ev": e["ev"]}
            if e["ev"] in ("wcall", "wret"):
                d.update(n=e["n"], k=int(e["k"]))
            elif e["ev"] in ("add", "remove"):
                d.update(n=e["n"])
            elif e["ev"] in ("notify", "final"):
                d.update(n=e["n"], vn=e.get("vn", "?"), k=int(e["k"]))
            lines.append(d)
    cfg = ("CONSTANTS\n  Nodes = {%s}\nSPECIFICATION TSpec\nINVARIANT InvTraceOK\nPOSTCONDITION Accepted\nCHECK_DEADLOCK FALSE\n"
           % ", ".join('"%s"' % n for n in sorted(nodes)))
    return "\n".join(json.dumps(d) for d in lines) + "\n", starts, cfg, lines


def validate(run, traces, label):
    """-> (ok, index of the offending trace, reason, event index within the log, TlcResult)"""
    nodes = {e["n"] for t in traces for e in t if e.get("n")} | {e["vn"] for t in traces for e in t if e.get("vn")}
    text, starts, cfg, lines = to_trace(traces, nodes)
    r = run.tlc("Monitor", "MonitorTrace", "MonitorTrace_run.cfg", mode="trace",
                files={"trace.ndjson": text, "MonitorTrace_run.cfg": cfg}, label=label, timeout=1800, count=False)
    if r.ok:
        return True, None, None, None, r
    if r.violated == "InvTraceOK":
        m = None
        for m in re.finditer(r'bad = \[at \|-> (\d+), why \|-> "(\w+)"\]', r.out):
            pass
        if m and int(m.group(1)) > 0:
            at, why = int(m.group(1)), m.group(2)
            idx = max([i for i, s in enumerate(starts) if s <= at] or [0])
            return False, idx, why, lines[at - 1], r
    run.save_text("tlc-trace-%s.out" % re.sub(r"\W+", "_", label)[:40], r.out)
    raise vf.Inconclusive("trace validation (%s) ended without a verdict: %s" % (label, r.error or r.violated))


KEYS = {
    "node": "notification-names-wrong-node",
    "future": "notification-carries-value-not-yet-written",
    "monotone": "notification-goes-back-to-older-value",
    "finalvalue": "final-read-is-not-the-last-written-value",
    "converge": "last-notification-is-not-the-latest-value",
}


def body(run):
    q = run.quick()
    def case(n, w, ch, iv, mode, pause, **kw):
        d = {"nodes": n, "writes": w, "churn": ch, "interval": iv, "mode": mode, "pause": pause,
             "app": 0, "ts": 0, "map": 0, "late": 0, "forced": 0}
        d.update(kw)
        return d

    quick_plan = [
        case(3, 200, 0, 20, "cb", 0), case(3, 200, 25, 20, "cb", 300, map=1), case(2, 100, 0, 50, "chan", 500, late=1),
        case(3, 150, 40, 10, "chan", 200),
        case(2, 200, 400, 1, "cb", 0),      # fast churn: many initial notifications race with a stream of writes
        # application mode: callback-backed nodes / map keys changed inside the server and announced with
        # Server.ChangeNotification / MapNamespace.SetValue from concurrent goroutines; the callback pauses after sampling
        case(3, 300, 0, 10, "cb", 100, app=1), case(2, 300, 10, 10, "chan", 100, app=1, map=1, late=1),
        # forced interleaving (independent of the seed): announcer 1 samples v1 and is parked in the value callback,
        # announcer 2 samples and queues v2, then announcer 1 queues v1 -- 3 repetitions on each of 2 nodes
        case(2, 0, 0, 10, "cb", 0, app=1, forced=3), case(2, 0, 0, 20, "chan", 0, app=1, forced=2),
        # explicit, non-monotonic source timestamps, several writes per publishing interval
        case(3, 300, 0, 50, "cb", 200, ts=1, map=1, late=1), case(2, 200, 10, 20, "chan", 100, ts=1),
    ]
    plan = quick_plan if q else quick_plan + [
        case(16, 2000, 0, 20, "cb", 0), case(16, 2000, 40, 20, "cb", 100, map=1), case(8, 5000, 0, 10, "chan", 0, ts=1),
        case(8, 3000, 60, 10, "cb", 50, late=1), case(4, 1000, 30, 100, "cb", 1000, ts=1, map=1, late=1), case(1, 5000, 0, 5, "cb", 0),
        case(6, 1000, 20, 1, "chan", 100), case(16, 500, 100, 50, "chan", 200, map=1),
        case(1, 200, 1500, 1, "chan", 0), case(3, 200, 1000, 1, "cb", 20),
        case(8, 3000, 0, 20, "cb", 50, app=1, map=1), case(4, 2000, 50, 5, "chan", 0, app=1, late=1), case(1, 5000, 0, 10, "cb", 0, app=1),
    ]
    cases = []
    for i, d in enumerate(plan):
        cases.append(dict(d, id=i + 1, salt=i + 1))
    exe = run.go_build("monitor")

    def models():
        run.parallel(
            lambda: run.tlc("Monitor", "Monitor", "Monitor_mc.cfg" if q else "Monitor_mc_thorough.cfg",
                            label="contract: pipeline model satisfies InvNotifyNode / ConvergesToLatest / ...", timeout=3000, workers=4),
            lambda: run.tlc("Monitor", "Monitor", "Monitor_dev_reuse.cfg", expect="violation", count=False, workers=2,
                            label="deviation demo: reused client handle"),
            lambda: run.tlc("Monitor", "Monitor", "Monitor_dev_keepold.cfg", expect="violation", count=False, workers=2,
                            label="deviation demo: publish queue keeps the older value"),
            lambda: run.tlc("Monitor", "Monitor", "Monitor_dev_split.cfg", expect="violation", count=False, workers=2,
                            label="deviation demo: value read and notification sent outside the lock"),
        )

    _, results = run.parallel(models, lambda: run.go_run(exe, [], cases=cases, timeout=2400))
    if len(results) != len(cases):
        raise vf.Inconclusive("harness returned %d results for %d cases" % (len(results), len(cases)))
    oks0 = [r for r in results if r.get("status") == "ok"]
    # one trace per subscription of a run: the writes, quiesce and final reads are common to all,
    # add / remove / notify events belong to one subscription (field s)
    oks, traces = [], []
    for r in oks0:
        evs = r["obs"]["events"]
        for si in range(1, int(r["obs"]["stats"].get("subscriptions", 1)) + 1):
            traces.append([e for e in evs if e.get("s", 0) in (0, si)])
            oks.append(dict(r, case=dict(r["case"], subscription=si)))
    for r in oks0:
        r["obs"] = r["obs"]["stats"]
    run.absorb(results)
    if not traces:
        raise vf.Inconclusive("no trace recorded")

    # binding demo: corrupt one recorded notification (node id swapped) -> must be rejected
    demo = None
    for t in traces:
        for i, e in enumerate(t):
            if e["ev"] == "notify" and e["k"] > 0:
                d = [dict(x) for x in t]
                d[i]["n"] = "n1" if e["n"] != "n1" else "n2"
                demo = d
                break
        if demo:
            break
    if demo is None:
        raise vf.Inconclusive("no notification recorded at all")
    ok, _, why, _, _ = validate(run, [demo], "binding demo: notification with a swapped node id must be rejected")
    if ok or why != "node":
        raise vf.Inconclusive("corrupted trace was not rejected for the node id (%s)" % why)
    run.cov["binding_demo"] = "recorded notification with swapped node id: rejected (InvTraceOK, why=node)"

    remaining = list(range(len(traces)))
    bad = 0
    while remaining and bad < 5:
        ok, idx, why, ev, r = validate(run, [traces[i] for i in remaining], "recorded traces of the real monitor/server")
        if ok:
            run.cov["states"] += r.distinct
            run.cov["transitions"] += r.generated
            break
        i = remaining.pop(idx)
        if why == "converge" and not any(e["ev"] == "notify" for e in traces[i]):
            # The subscription delivered no notification at all during the whole run: it was never
            # serviced (seen only when the machine is saturated: the server lets a subscription expire
            # whose publish requests do not arrive within its lifetime).  C28 speaks about the
            # notifications that ARE delivered; a subscription that is silent for good is the subject of
            # C26/C27.  Such a run is counted as not driven, never as a verdict.
            run.cov["silent_subscriptions"] = run.cov.get("silent_subscriptions", 0) + 1
            run.save_text("silent-trace-%d.ndjson" % oks[i]["case"]["id"], "\n".join(json.dumps(e) for e in traces[i]) + "\n")
            if run.cov["silent_subscriptions"] * 3 > len(traces):
                raise vf.Inconclusive("%d of %d subscriptions delivered no notification at all" % (run.cov["silent_subscriptions"], len(traces)))
            continue
        bad += 1
        p = run.save_text("rejected-trace-%d.ndjson" % oks[i]["case"]["id"], "\n".join(json.dumps(e) for e in traces[i]) + "\n")
        run.violation(KEYS.get(why, why), "trace of case %s: event %s breaks %s (trace saved: %s)" % (
            json.dumps(oks[i]["case"]), json.dumps(ev), why, p), case={"shape": oks[i]["case"], "event": ev, "why": why})
    run.cov["traces_validated_against_impl"] += len(remaining)
    run.cov["events_validated"] = sum(len(traces[i]) for i in remaining)
    run.cov["traces_per_subscription"] = len(traces)
    run.cov["rule"] = ("one evaluation per recorded run (nodes x writes per node x churn rounds x publishing interval x callback/"
                       "channel subscription); non-trivial when more notifications than the initial ones were delivered")
    run.assumptions += [
        "values are tagged node*1e6+counter, one writer per node; wcall/add/remove are stamped before the call, wret after, notify inside the callback, by one atomic counter",
        "drain after the last write: no notification for max(10 publishing intervals, 500 ms) (at most 15 s), then every node is read",
        "'handle not found' messages (DataChangeMessage.Error set, no node id) are counted but are not data changes",
        "map=1: the keys of a MapNamespace are monitored and written as well (application mode: MapNamespace.SetValue); ts=1: client writes carry explicit source timestamps drawn at random within +-1 h (not monotonic); late=1: after the last write a second subscription of the same NodeMonitor adds every node in one request and must still converge (one trace per subscription)",
        "forced=N: the value callback parks announcer 1 right after sampling until announcer 2 is through or 6 publishing intervals + 150 ms have passed (a server that serialises announcers only gets slower); the interleaving does not depend on VERIF_SEED",
        "application mode: the value of a callback-backed node is changed by one goroutine per node and announced with Server.ChangeNotification from a goroutine per change; the value callback pauses up to 0.4 ms after sampling on every third call (scheduler gate through the public ValueFunc)",
        "the application consumes notifications immediately (deep channel / cheap callback): slow-consumer drops are outside the property",
    ]


vf.main(body, "C28", design_ref="S10/C28")
