# C10 -- a replayed (or re-ordered) secured chunk is never delivered twice; received sequence
# numbers strictly increase.
# spec/ScRecv: sender (gopcua's: one message at a time, optionally one token renewal between
# two messages) + adversary (replay / hold+release / drop) + receiver.  TLC proves InvNoReplay / InvNoDoubleDelivery / StepSeqMonotone for the
# contract receiver (sequence check in serial-number arithmetic with the Part 6 wrap), shows
# that the invariants fail without the check (Dev_NoSeqCheck), and emits every bounded
# behaviour with the outcome of each input.  Each behaviour is replayed on a real channel pair:
# the real gopcua sender produces the chunks, the frame proxy applies the adversary's moves,
# and the receiving channel's events (recv.chunk hook = chunk accepted, Receive returns) must
# be the ones the specification computed.  The as-is configuration (deviation flags on) tells a
# listed finding from anything else.
import vf
import screcv_common as sc
import repotrace


def body(run):
    q = run.quick()
    exe = [None]
    res = run.parallel(
        lambda: run.tlc("ScRecv", "ScRecv_MC", "ScRecv_c10_mc.cfg", workers=2, label="contract: replay/reorder/drop, budget 2, 3 plans x 5 numberings (wrap)"),
        lambda: run.tlc("ScRecv", "ScRecv_MC", "ScRecv_c10_dev.cfg", workers=1, expect="violation", count=False,
                        label="deviation demo: no sequence check violates InvNoReplay"),
        lambda: run.tlc("ScRecv", "ScRecv_MC", "ScRecv_c10_dev2.cfg", expect="violation", count=False, workers=1,
                        label="deviation demo: a new sequence window at token renewal violates InvNoReplay"),
        lambda: run.tlc("ScRecv", "ScRecv_MC", "ScRecv_c10_gen_q.cfg" if q else "ScRecv_c10_gen_t.cfg", mode="gen", count=False,
                        label="behaviours with contract and as-is outcome of every input"),
        lambda: exe.__setitem__(0, run.go_build("screcv")),
    )
    rows = [b for b in res[3].rows if sc.nontrivial(b) and any(s["in"] not in ("pass", "renew") for s in b["steps"])]
    behs = [b for b in rows if b["sp"]["first"] == 2]
    wrap = [b for b in rows if b["sp"]["first"] != 2]
    combos = [("Basic256Sha256", "Sign"), ("Basic256Sha256", "SignAndEncrypt")] if q else sc.SECURED
    cases = []
    salt = 0
    for pol, mode in combos:
        for side in ("server", "client"):
            salt += 1
            pick = sc.sample(behs, run.pick(40, 250 if pol == "Basic256Sha256" else 60), run.seed, salt)
            pick += sc.sample(wrap, run.pick(8, 60 if pol == "Basic256Sha256" else 10), run.seed, salt)
            for b in pick:
                c = dict(b)
                c.update({"prop": "C10", "policy": pol, "mode": mode, "side": side, "sender": "real"})
                cases.append(c)
    run.log("TLC: %d states; %d behaviours (%d across the wrap); %d cases to replay" % (
        run.cov["states"], len(behs), len(wrap), len(cases)))
    tpath = run.tmp("traces.ndjson")
    results = run.go_run(exe[0], ["-par", "6", "-trace", tpath], cases=cases, timeout=run.pick(600, 2400))
    if len(results) != len(cases):
        raise vf.Inconclusive("harness returned %d results for %d cases" % (len(results), len(cases)))
    sc.log_inconclusive(run, results)
    run.absorb(results)
    # code -> spec: TLC validates the recorded inputs + receiver events against the receiver of ScRecv
    ok, n = sc.validate_traces(run, tpath, "trace validation of the replayed behaviours")
    if ok:
        run.cov["traces_validated_against_impl"] += n
        bad, _ = sc.validate_traces(run, tpath, "binding self-test: one recorded verdict flipped", corrupt=True)
        if bad is not False:
            raise vf.Inconclusive("trace validation accepted a corrupted trace")
        run.cov["corrupted_trace_rejected"] = True
    elif ok is False and not run.violations:
        run.violation("%s:recorded-trace-not-a-behaviour-of-the-specification" % run.prop.lower(),
                      "TLC rejects the recorded receiver events (see out/log/%s)" % run.prop)

    if not run.quick():
        repotrace.validate(run, side="recv")   # family T: recv.chunk traces of the repository's own tests (design/T.md)
    run.cov["behaviours_generated"] = len(behs) + len(wrap)
    run.cov["rule"] = ("one case per (TLC behaviour with at least one adversary move, policy, mode, receiving side); "
                       "class = receiver x policy x mode x multiset of (move, chunk kind, specified outcome)")
    run.assumptions += [
        "a replayed copy of a chunk sent before the sequence wrap counts as behind after the wrap (serial-number arithmetic); forward gaps are not an error (C10 does not demand gap detection)",
        "the receiving server channel is driven by a loop that keeps calling Receive after an error (the gopcua server closes the connection instead)",
        "a partially received message (a chunk of it was refused) may be delivered or refused: only whole messages are compared byte for byte (payload digest)",
    ]


vf.main(body, "C10", design_ref="S5/C10")
