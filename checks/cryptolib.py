# helpers shared by C14 / C15
import os

import vf


def tables_identical():
    a = open(os.path.join(vf.VERIF, "spec", "Crypto", "PolicyTables.tla")).read()
    b = open(os.path.join(vf.VERIF, "spec", "ChunkLayout", "PolicyTables.tla")).read()
    if a != b:
        raise vf.Inconclusive("spec/Crypto/PolicyTables.tla and spec/ChunkLayout/PolicyTables.tla differ")
