# C27 -- subscription API calls and the publish loop never deadlock.
#
# spec/ClientConn/ClientConn.tla models Subscribe / Cancel / publish loop / monitor with one
# action per code segment between two verif hooks.  TLC (1) proves on the contract
# configuration that no API call gets stuck and the loop follows the registered
# subscriptions, (2) must find the stuck states when the deviations the code has are switched
# on (blocking signal sends under subMux; pause and resume on two channels), (3) emits
# behaviours: one per distinct stuck / lost-resume end state of the as-is model plus a seeded
# sample of ordinary interleavings.  Every behaviour is replayed on the real client (real
# gopcua server in a child process) by releasing its goroutines one step at a time at the
# hook gates; afterwards everything runs free and a watchdog decides from the real client
# only: API calls that do not return (goroutine dump) or a publish loop that delivers nothing
# although a subscription is registered are violations.  All recorded hook traces are
# validated by TLC against ClientConnTrace.
import json
import os
import sys

sys.path.insert(0, os.path.dirname(os.path.abspath(__file__)))
import vf
import clientconn_lib as cl


def body(run):
    q = run.quick()
    exe = [None]
    res = run.parallel(
        lambda: run.tlc("ClientConn", "ClientConnMC", "C27_contract.cfg" if q else "C27_contract_thorough.cfg",
                        label="contract: no stuck call, loop follows subscriptions, acks once", timeout=3000,
                        workers=4 if q else 12),
        lambda: run.tlc("ClientConn", "ClientConnMC", "C27_dev_blocking.cfg", expect="violation", count=False,
                        label="deviation demo: blocking signal sends (pause under subMux) -> stuck call", timeout=1500, workers=2),
        lambda: run.tlc("ClientConn", "ClientConnMC", "C27_dev_split.cfg", expect="violation", count=False,
                        label="deviation demo: pause/resume on two channels -> loop paused with a subscription", timeout=1500, workers=2),
        lambda: run.tlc("ClientConn", "ClientConnMC", "C27_gen_bad.cfg", mode="gen", count=False, timeout=3000,
                        label="as-is model: one behaviour per distinct stuck / lost-resume end state"),
        lambda: run.tlc("ClientConn", "ClientConnMC", "C27_gen_sim.cfg", mode="gen", count=False, timeout=3000,
                        simulate=run.pick(150, 800), depth=90, label="as-is model: seeded sample of interleavings"),
        lambda: exe.__setitem__(0, run.go_build("clientconn")),
        lambda: run.tlc("ClientConn", "ClientConnMC", "C27_gen_full.cfg", mode="gen", count=False, timeout=3000,
                        label="as-is model: behaviours that end with a goroutine about to signal on a full channel"),
        lambda: run.tlc("ClientConn", "ClientConnMC", "C27_gen_mon.cfg", mode="gen", count=False, timeout=3000,
                        simulate=run.pick(200, 1500), depth=150,
                        label="as-is model: calls racing one reconnect (reset / restart), monitor arms as steps"),
        # thorough: the model of the proposed repair (non-blocking sends only) has no stuck call either
        (lambda: None) if q else (lambda: run.tlc("ClientConn", "ClientConnMC", "C27_fix_nonblocking.cfg", timeout=3000, workers=6,
                                                   label="repair model: non-blocking signal sends, two channels kept -> no stuck call")),
    )
    bad, sim = res[3].rows, res[4].rows
    if not bad:
        raise vf.Inconclusive("as-is model produced no lost-resume behaviour")
    stuck = [b for b in bad if b["stuck"]]
    lost = [b for b in bad if b["lostresume"] and not b["stuck"]]
    shape = lambda b: (json.dumps(cl.scripts_of(b), sort_keys=True), b["lpc"], b["stuck"], b["lostresume"])
    sel_stuck = cl.pick(stuck, run.pick(2, 40), run.seed, key=lambda b: b["lpc"])
    sel_lost = cl.pick(sorted(lost, key=lambda b: len(b["steps"])), run.pick(2, 12), run.seed, key=lambda b: len(b["steps"]) // 6)
    normal = [b for b in sim if not b["stuck"] and not b["lostresume"]]
    sel_norm, feats = cl.pick_features(normal, run.pick(6, 80), run.seed)
    run.cov["situations_covered"] = feats
    full = res[6].rows
    sel_full = cl.pick(sorted(full, key=lambda b: len(b["steps"])), run.pick(2, 20), run.seed,
                       key=lambda b: (json.dumps(sorted(b["full"])), b["lpc"], b["mux"]))
    run.cov["behaviours_full_channel"] = len(full)
    sel_mon, mon_sits = cl.pick_mon(res[7].rows, run.pick(4, 30), run.seed)
    run.cov["monitor_situations_covered"] = mon_sits
    cases, scripts = [], {}
    for kind, sel, tries in (("stuck", sel_stuck, 5), ("lost", sel_lost, 10), ("full", sel_full, 6), ("norm", sel_norm, 6), ("mon", sel_mon, 4)):
        for i, b in enumerate(sel):
            c = cl.strip_init(b)
            c["id"] = "%s%d" % (kind, i)
            c["end"] = kind != "full"
            c["tries"] = tries
            scripts[c["id"]] = cl.scripts_of(b)
            cases.append(c)
    run.log("TLC: %d bad end states (%d stuck, %d lost-resume), %d sampled; replaying %d behaviours" % (
        len(bad), len(stuck), len(lost), len(sim), len(cases)))
    results = run.go_run(exe[0], ["-mode", "replay", "-par", str(run.pick(12, 12))], cases=cases, timeout=run.pick(900, 3000))
    if len(results) != len(cases):
        raise vf.Inconclusive("harness returned %d results for %d cases" % (len(results), len(cases)))
    # trace validation of every recorded replay (also of the ones whose select order drifted)
    lines, ntr = [], 0
    mon_traces = []
    for r in results:
        tr = (r.get("obs") or {}).pop("trace", None)
        if tr and str(r["case"]).startswith("mon"):
            mon_traces.append((r["case"], "\n".join(json.dumps(x) for x in cl.normalize_life(tr)) + "\n"))
            tr = None
        if tr:
            recs = cl.normalize_replay(tr, scripts.get(r["case"], {}))
            if len(recs) > 1:
                lines += [json.dumps(x) for x in recs]
                ntr += 1
        if r["status"] == "inconclusive" and "could not be driven" in (r.get("detail") or ""):
            # select order is decided by the Go runtime; such a run still counts through its trace
            r["status"] = "ok"
            r["class"] = ""
            r["nontrivial"] = False
            run.cov.setdefault("undriven", 0)
            run.cov["undriven"] += 1
    run.absorb(results)
    # the Go runtime picks among ready select arms at random, so a few schedules may stay undriven after
    # all their tries; only a run in which most of them could not be driven says nothing
    if run.cov.get("undriven", 0) > (2 * len(cases)) // 3:
        raise vf.Inconclusive("%d of %d schedules could not be driven" % (run.cov["undriven"], len(cases)))
    if ntr:
        text = "\n".join(lines) + "\n"
        tv = run.tlc("ClientConn", "ClientConnTrace", "ClientConnTrace.cfg", mode="trace", files={"trace.ndjson": text},
                     deque=True, count=True, label="trace validation of %d replays (%d events)" % (ntr, len(lines)), timeout=1500)
        if tv.ok:
            run.cov["traces_validated_against_impl"] += ntr
        elif tv.postcondition_failed or "STUCK" in tv.out:
            k = cl.stuck_index(tv.out)
            ev = json.loads(lines[k - 1]) if k and k <= len(lines) else None
            run.save_text("trace-rejected.ndjson", text)
            run.violation("hook-trace-not-a-behaviour-of-ClientConn",
                          "event %s of the recorded hook trace is not allowed by the as-is specification: %s" % (k, ev), case=ev)
        else:
            run.save_text("tlc-trace.out", tv.out)
            raise vf.Inconclusive("trace validation did not run: %s" % (tv.error,))
    # replays with a fault: the gated trace is also a free-running trace, validated against ClientConnLife
    def vmon(t):
        try:
            return t[0], run.tlc("ClientConn", "ClientConnLife", "ClientConnLife.cfg", mode="trace", files={"trace.ndjson": t[1]}, deque=True,
                                 count=True, timeout=run.pick(120, 600), label="trace validation of replay %s (with reconnect)" % t[0])
        except vf.Inconclusive:
            return t[0], None
    if mon_traces:
        for cid, tv in run.parallel(*[(lambda t=t: vmon(t)) for t in mon_traces]):
            if tv is not None and tv.ok:
                run.cov["traces_validated_against_impl"] += 1
            else:
                run.cov["traces_unexplained"] = run.cov.get("traces_unexplained", 0) + 1
    run.cov["rule"] = ("one case per TLC behaviour of the as-is model replayed step by step at the hook gates; class = call "
                       "scripts per application goroutine x end state (rest / stuck / lost resume) x loop park point")
    run.cov["behaviours_bad_end_states"] = len(bad)
    run.cov["behaviours_sampled"] = len(sim)
    run.assumptions += [
        "an API call counts as blocked for good when it has not returned 2 x publish time-out (2 s) + 6 s after the schedule, or earlier when two goroutine dumps 700 ms apart show the call and the publish loop both blocked on a lock / channel send; the dump is part of the report",
        "during the gated replay a goroutine that is seen blocked on a lock / channel send in three dumps 600 ms apart at a step the as-is specification says is enabled is a violation",
        "publish progress: with a registered subscription and a value changing every 100 ms a notification must arrive within publish time-out + 8 s; decided earlier when the loop sits in its paused select with empty signal channels and an idle monitor",
        "the publish loop has taken the initial pause signal of NewClient before the first application call returns",
        "select order among ready channels is chosen by the Go runtime: schedules that need a particular order are retried (up to 8 times), undriven ones are not counted",
        "peer is the gopcua server (no BadNoSubscription, no per-acknowledgement results, publish requests without subscription are held until they time out)",
    ]


vf.main(body, "C27", design_ref="S9/C27")
