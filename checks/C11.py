# C11 -- outgoing sequence numbers increase by one per chunk, even across renewals.
# spec/ScSend: senders (gate, instance capture, pendingReq, instance lock, numbering, chunk loop) and
# the renewer (gate lock, Wait, old-instance lock, counter copy, OPN, install / failure), one label per
# critical section = one verif hook.
#  1. TLC proves InvSeqStep / InvContiguous / InvNoMisuse / InvFreshInst on the contract model
#     (senders x chunks x one renewal that may fail, counter wrap inside the run).
#  2. Deviation demos: Dev_GateGap (the code as it is, open finding) and Dev_FailedRenewSeq (repaired in
#     61b5747, kept as non-vacuity demo) each violate InvSeqStep.
#  3. TLC generates schedules of the as-is model (seeded random walks); a seeded sample (stratified by the order of the
#     numbering/writing steps) is forced on the real client channel through the hook gates.
#     A sender's context may end in the middle of a multi-chunk message (the chunk it is parked at is
#     still written, the call returns the context error): the numbers used stay used, the next message
#     continues after them (demo: handing them back violates InvSeqStep).
#     A sender's context may also have ended before the call (C6fail): the message is numbered, nothing is
#     written, the number goes back -- the next message continues at +1 (demo Dev_SeqConsumedOnEarlyFailure:
#     a gap). Every forced schedule ends with the same on the server's send path (response, response with
#     an ended context, response).
#     Calls are issued at any point of the schedule, also while the renewal holds the gate (step "call";
#     such a sender waits and must be sent on the instance the renewal installed: InvLateOnNew). A duplicate
#     number is attributed to the known gate gap only when the as-is model predicts one for that very
#     schedule; otherwise it is a new violation.
#     Independent of the seed, every schedule of the pinned model (sender, then sender, then the renewal;
#     <= 3 chunks; exhaustive) is replayed, and every forced schedule ends with the server's send path:
#     response / response with ended context / response / 3-chunk response abandoned after 1 chunk /
#     response / 3-chunk response abandoned after 2 chunks / response. The free runs abandon 3-chunk
#     requests and responses after one or two chunks as well.
#  4. Free-running runs: senders with 1-3 chunk messages, multi-chunk responses from several server
#     goroutines, renewals in between, counters started just below the wrap point, None and
#     Basic256Sha256/SignAndEncrypt.
#     Both sides also issue sends with an already ended context between successful ones; the many-caller
#     runs of the correlation harness (failing callers next to normal ones) are recorded as traces too.
#  5. The chunk.write events of every run (client and server direction) are evaluated by TLC against
#     spec/ScSend/ScSendTrace (same invariants on 32-bit numbers); the verdict rows decide.
import json
import random
import vf
import repotrace
import sccorr_common as sc


def order_class(sched):
    keep = ("call", "send.enter", "send.add", "chunk.write", "abort", "fail0", "renew.locked", "renew.waited", "open.copied", "open.installed", "wait.timeout")
    return ",".join(s["p"][-1] + ":" + s["to"].split(".")[-1] for s in sched if s["to"] in keep)


def body(run):
    q = run.quick()
    exe = [None, None]
    jobs = [
        lambda: run.tlc("ScSend", "ScSend", "ScSend_mc.cfg", label="contract: 2 senders x <=2 chunks, renewal may fail, wrap", workers=2, timeout=1500),
        lambda: run.tlc("ScSend", "ScSend", "ScSend_dev_gategap.cfg", expect="violation", count=False, workers=1, label="as-is: gate gap"),
        lambda: run.tlc("ScSend", "ScSend", "ScSend_dev_gategap_misuse.cfg", expect="violation", count=False, workers=1, label="as-is: WaitGroup misuse"),
        lambda: run.tlc("ScSend", "ScSend", "ScSend_dev_failedrenew.cfg", expect="violation", count=False, workers=1, label="demo (repaired 61b5747): failed renewal keeps the old counter"),
        lambda: run.tlc("ScSend", "ScSend", "ScSend_gen_asis.cfg" if q else "ScSend_gen_asis_t.cfg", mode="gen", count=False, timeout=3000,
                        simulate=run.pick(400, 6000), depth=100, label="schedules of the as-is model (seeded random walks to terminal states)"),
        lambda: exe.__setitem__(0, run.go_build("scsend")),
        lambda: run.tlc("ScSend", "ScSend", "ScSend_dev_resetonabort.cfg", expect="violation", count=False, workers=1,
                        label="demo: aborted multi-chunk send hands its numbers back"),
        lambda: run.tlc("ScSend", "ScSend", "ScSend_dev_earlyfail.cfg", expect="violation", count=False, workers=1,
                        label="demo (repaired d8b779a): a send failing before its first chunk keeps its number"),
        lambda: exe.__setitem__(1, run.go_build("sccorr")),
        lambda: run.tlc("ScSend", "ScSend", "ScSend_gen_pinned.cfg", mode="gen", count=False, timeout=1500,
                        label="pinned schedules (exhaustive, seed-independent): sender, sender, renewal; <= 3 chunks; every ending of a message"),
    ]
    if not q:
        jobs.append(lambda: run.tlc("ScSend", "ScSend", "ScSend_mc_t.cfg", label="contract: 3 senders x <=3 chunks", workers=6, timeout=3000))
    res = run.parallel(*jobs)
    if [res[1].violated, res[2].violated, res[3].violated, res[6].violated, res[7].violated] != ["InvSeqStep", "InvNoMisuse", "InvSeqStep", "InvSeqStep", "InvSeqStep"]:
        raise vf.Inconclusive("deviation demos violated %s" % [res[1].violated, res[2].violated, res[3].violated, res[6].violated, res[7].violated])
    behs = res[4].rows
    # stratified sample over the order classes; behaviours in which the model's wire breaks the
    # invariant (these are the counterexamples of the deviation demos) are over-represented
    rnd = random.Random(run.seed)
    bad = [b for b in behs if not b["stepok"]]
    good = [b for b in behs if b["stepok"]]
    by = {}
    for b in bad:
        by.setdefault(order_class(b["sched"]), []).append(b)
    classes = sorted(by)
    rnd.shuffle(classes)
    nbad, ngood = run.pick(40, 600), run.pick(60, 900)
    sample = [rnd.choice(by[c]) for c in classes[:nbad]]
    ab = [b for b in good if any(st["to"] in ("abort", "fail0") for st in b["sched"])]
    la = [b for b in good if b.get("late") and b not in ab]      # a call issued during the renewal
    na = [b for b in good if b not in ab and b not in la]
    third = ngood // 3
    sample += rnd.sample(ab, min(third, len(ab))) + rnd.sample(la, min(third, len(la))) + rnd.sample(na, min(ngood - 2 * third, len(na)))
    # the pinned schedules are always replayed, all of them: every ending of a message (whole, failed before the
    # first chunk, abandoned after 1 of 2, 1 of 3, 2 of 3 chunks) followed by a further message on the same instance
    pinned = res[9].rows
    if not any(st["to"] == "abort" for b in pinned for st in b["sched"]):
        raise vf.Inconclusive("the pinned generation produced no schedule with an abandoned message")
    sample = pinned + sample
    cases = [{"n": i, "mode": "sched", "sched": b["sched"]} for i, b in enumerate(sample)]
    # what the as-is model (gate gap only) predicts for each schedule: a duplicate number or a clean wire;
    # and whether a sender's call was issued while the renewal held the gate
    expect_bad = {i: (not b["stepok"]) for i, b in enumerate(sample)}
    late = {i: bool(b.get("late")) for i, b in enumerate(sample)}
    base = len(cases)
    stress = [dict(senders=4, msgs=12, renewals=3, nearwrap=True, policy="None", secmode="None"),
              dict(senders=3, msgs=8, renewals=2, nearwrap=True, policy="Basic256Sha256", secmode="SignAndEncrypt")]
    if not q:
        stress += [dict(senders=8, msgs=40, renewals=10, nearwrap=True, policy="None", secmode="None"),
                   dict(senders=8, msgs=40, renewals=10, nearwrap=False, policy="Basic256Sha256", secmode="Sign"),
                   dict(senders=16, msgs=30, renewals=8, nearwrap=True, policy="Aes256_Sha256_RsaPss", secmode="SignAndEncrypt")] + \
                  [dict(senders=4, msgs=20, renewals=6, nearwrap=True, policy="None", secmode="None") for _ in range(20)]
    for i, s in enumerate(stress):
        s.update({"n": base + i, "mode": "stress"})
        cases.append(s)
    run.log("TLC: %d states; %d schedules generated (%d with a duplicate number in the model, %d order classes); %d forced, %d free runs" % (
        run.cov["states"], len(behs), len(bad), len(by), base, len(stress)))
    results = run.go_run(exe[0], [], cases=cases, timeout=run.pick(600, 3000), env=sc.race_env())
    if len(results) < len(cases):
        raise vf.Inconclusive("harness returned %d results for %d cases" % (len(results), len(cases)))
    # the many-caller runs of the correlation harness (callers whose context has ended / ends within the
    # send next to normal callers, single- and multi-chunk responses) as further traces
    mc = [dict(callers=8, rounds=6, failshare=2, big=False, wrap=False), dict(callers=6, rounds=4, failshare=2, big=True, wrap=True)]
    if not q:
        mc += [dict(callers=32, rounds=8, failshare=2, big=False, wrap=True), dict(callers=16, rounds=6, failshare=4, big=True, wrap=False),
               dict(callers=8, rounds=6, failshare=2, big=False, wrap=False, level="client")]
    mcases = [dict(m, n=i, mode="stress", level=m.get("level", "uasc"), stride=1, rec=True, beh={"steps": [], "results": []}) for i, m in enumerate(mc)]
    mres = run.go_run(exe[1], ["-prop", "C11"], cases=mcases, timeout=900, env=sc.race_env())
    if len(mres) < len(mcases):
        raise vf.Inconclusive("correlation harness returned %d results for %d cases" % (len(mres), len(mcases)))
    for r in mres:
        if r.get("status") == "violation":
            r["status"] = "inconclusive"   # the correlation oracle belongs to C18/C19; here only the trace counts
    results += mres
    # trace validation by TLC: all recorded chunk.write traces in one file
    lines, meta = [], {}
    drift = 0
    for r in results:
        o = r.get("obs") or {}
        if r.get("status") != "ok" or "events" not in o:
            continue
        if o.get("drift"):
            drift += 1
        meta[o["tr"]] = (r, o)
        for e in o["events"]:
            e = dict(e)
            e.pop("who", None)
            lines.append(json.dumps(e))
    if not lines:
        raise vf.Inconclusive("no chunk.write events recorded")
    # binding demonstration: a copy of one good trace with one sequence number changed must be rejected
    demo_tr = None
    for tr, (r, o) in meta.items():
        if o.get("scenario") == "stress" and len(o["events"]) > 10:
            demo_tr = 10 ** 6
            evs = [dict(e) for e in o["events"]]
            for e in evs:
                e["tr"] = demo_tr
                e.pop("who", None)
            mid = next(j for j in range(len(evs) // 2, len(evs)) if evs[j]["type"] == "MSG")   # not an ABORT marker
            evs[mid]["lo"] = (evs[mid]["lo"] + 2) % 65536
            lines += [json.dumps(e) for e in evs]
            break
    tr = run.tlc("ScSend", "ScSendTrace", "ScSendTrace.cfg", mode="gen", files={"trace.ndjson": "\n".join(lines) + "\n"},
                 label="trace validation of chunk.write events", timeout=1500)
    verdicts = {v["tr"]: v for v in tr.rows}
    if demo_tr is not None:
        if verdicts.get(demo_tr, {}).get("verdict") == "ok":
            raise vf.Inconclusive("binding demonstration failed: corrupted trace accepted")
        run.cov["binding_demo"] = {"corrupted_trace_verdict": verdicts[demo_tr]["verdict"]}
    reproduced = 0
    for t, (r, o) in meta.items():
        v = verdicts.get(t)
        if v is None:
            raise vf.Inconclusive("no verdict row for trace %s" % t)
        r["obs"] = {k: o[k] for k in o if k not in ("events",)}
        r["obs"]["verdict"] = v
        if v["verdict"] == "ok":
            run.cov["traces_validated_against_impl"] += 1
            continue
        scen = o.get("scenario", "")
        n = r["case"].get("n") if isinstance(r.get("case"), dict) else None
        if v["verdict"] == "stale" and scen.startswith("sched") and n in expect_bad and not expect_bad[n]:
            # the as-is model (known gate gap included) predicts a clean wire for this schedule
            key = ("request-issued-during-renewal-used-retired-instance" if late.get(n) else
                   "duplicate-seq-where-the-as-is-model-predicts-none")
        elif v["verdict"] == "stale":
            key = ("duplicate-seq-sender-captured-instance-before-renewal" if scen.startswith("sched-renew-ok") else
                   "duplicate-seq-after-failed-renewal" if scen.startswith("sched-renew-fails") else
                   "duplicate-seq-on-superseded-instance")
            reproduced += 1
        elif v["verdict"] == "gap":
            key = "sequence-gap-after-failed-send" if o.get("failed_sends") else "sequence-gap"
        else:
            key = "sequence-" + v["verdict"] + ("-after-aborted-message" if "-abort" in scen else "")
        ev = o["events"][max(0, v["at"] - 3): v["at"] + 1]
        r["status"], r["key"] = "violation", key
        r["detail"] = "%s: chunk %d of the trace breaks the rule (%s); last chunks: %s" % (
            scen, v["at"], v["verdict"], [(e["dir"], e["type"], e["hi"] * 65536 + e["lo"], e["req"], e["i"], e.get("who")) for e in ev])
    run.absorb(results)
    if not run.quick():
        repotrace.validate(run, side="send")   # family T: chunk.write traces of the repository's own tests (design/T.md)
    run.cov["schedules_generated"] = len(behs)
    run.cov["schedules_forced"] = base
    run.cov["schedules_not_drivable"] = drift
    run.cov["model_counterexamples_reproduced_on_code"] = reproduced
    if base and drift > 0.5 * base:
        run.notes.append("%d of %d forced schedules could not be driven to the end (the code no longer matches the as-is model)" % (drift, base))
    run.cov["rule"] = ("forced schedules: one per sampled order of numbering/writing/renewal steps (class = that order + renewal outcome); "
                       "free runs: policy x mode x senders x renewals x near-wrap; every run yields one chunk.write trace judged by TLC")
    run.assumptions += [
        "the chunk.write hook is taken under the instance lock immediately before the socket write; for two different instances the order of hook events is the order in which the harness releases the goroutines",
        "wrap rule (lenient reading of Part 6 6.7.2.4): accepted iff previous number > 2^32-1025 and next < 1024",
        "schedules in which a sender is preempted between reqLocker.waitIfLock and getActiveChannelInstance are forced through the hooks send.gate/send.enter; the free runs reach them only by chance",
        "TLC, SANY, Go toolchain trusted",
    ]


vf.main(body, "C11", design_ref="S4/C11")
