# C23 -- client options affect only the client they are applied to.
# spec/UacpNegotiation/UacpClientConfig: programs = sequences of opcua.NewClient(options...)
# constructions + each client's Hello; configuration by value except the dialer's Acknowledge
# object, which lives in a heap with identity (object 0 = uacp.DefaultClientACK).  TLC proves
# InvIsolation (action property), InvDefaultPristine and InvHelloOwn for the contract and
# shows that sharing the default object (Dev_SharedDefaultAck) violates them.  TLC then emits
# programs with the expected observation after every construction (all clients' effective
# configuration, the package default, an option-less later client) and the expected Hello of
# each client; harness/cmd/clientcfg runs them on the real opcua.NewClient / Client.Dial.
# The shared default was a genuine defect of the pinned tree (repaired in /repo, see
# findings/uacp.txt); Dev_SharedDefaultAck = TRUE is kept as the non-vacuity demo.  Only if the
# entry is re-opened does a second TLC pass compute the as-is model's prediction, so that a run
# deviating exactly as that model says is attributed to that one known defect.
import json
import os
import vf


def body(run):
    q = run.quick()
    os.environ.setdefault("JAVA_TOOL_OPTIONS", "-XX:ParallelGCThreads=2")
    exe = [None]
    F, M = "UacpNegotiation", "UacpClientConfig"
    jobs = [
        lambda: run.tlc(F, M, M + ("_mc_quick.cfg" if q else "_mc.cfg"), timeout=3000,
                        label="contract: InvIsolation, InvDefaultPristine, InvOwnToken, InvHelloOwn for all programs in bounds"),
        lambda: run.tlc(F, M, M + "_gen_pairs.cfg", mode="gen", count=False, timeout=3000,
                        label="programs: client 1 [X], client 2 [Y], two option objects, full option list (exhaustive)"),
        lambda: run.tlc(F, M, M + "_gen_shared.cfg", mode="gen", count=False, timeout=3000,
                        label="programs: client 1 [X], client 2 [X, Y] with the SAME option object X (exhaustive)"),
        lambda: run.tlc(F, M, M + ("_sim_quick.cfg" if q else "_sim.cfg"), mode="gen", count=False, timeout=3000,
                        label="programs: seeded samples, small pool of option objects re-used by up to 3/4 clients x 3 options"),
        lambda: run.tlc(F, M, M + "_dev_iso.cfg", expect="violation", count=False,
                        label="deviation demo: shared default Acknowledge violates InvIsolation"),
        lambda: run.tlc(F, M, M + "_dev_tok_iso.cfg", expect="violation", count=False,
                        label="deviation demo: an option object that owns its identity token violates InvIsolation"),
        lambda: exe.__setitem__(0, run.go_build("clientcfg")),
    ]
    if not q:
        jobs.append(lambda: run.tlc(F, M, M + "_dev.cfg", expect="violation", count=False,
                                    label="deviation demo: shared default Acknowledge violates InvDefaultPristine"))
        jobs.append(lambda: run.tlc(F, M, M + "_dev_tok.cfg", expect="violation", count=False,
                                    label="deviation demo: captured identity token violates InvOwnToken"))
    res = run.parallel(*jobs)
    rows = res[1].rows + res[2].rows + res[3].rows
    if len(rows) < 100:
        raise vf.Inconclusive("TLC emitted only %d programs" % len(rows))
    # As-is configuration = the Dev_* flags of the open entries in the findings files.  The shared
    # default Acknowledge was repaired in /repo (fixed: entry), so as-is = contract and every
    # deviation is reported under its own key.  If the entry is ever re-opened, the second TLC pass
    # computes the as-is model's prediction for the same programs.
    known, _fixed = run.known()
    if "default-ack-object-shared-by-clients" in known:
        progs = "".join(json.dumps({"pool": r["pool"], "prog": r["prog"]}) + "\n" for r in rows)
        asis = run.tlc(F, M, M + "_asis.cfg", mode="gen", count=False, timeout=3000, files={"progs.ndjson": progs},
                       label="as-is model (Dev_SharedDefaultAck) on the same programs")
        bykey = {json.dumps([r["pool"], r["prog"]], sort_keys=True): r["hist"] for r in asis.rows}
        missing = 0
        for r in rows:
            a = bykey.get(json.dumps([r["pool"], r["prog"]], sort_keys=True))
            if a is None:
                missing += 1
            else:
                r["asis"] = a
        if missing:
            raise vf.Inconclusive("as-is pass lost %d of %d programs" % (missing, len(rows)))
    run.log("TLC: %d states; %d programs to replay" % (run.cov["states"], len(rows)))
    results = run.go_run(exe[0], [], cases=rows, timeout=2400)
    if len(results) != len(rows):
        raise vf.Inconclusive("harness returned %d results for %d programs" % (len(results), len(rows)))
    run.absorb(results)
    run.cov["programs_two_objects"] = len(res[1].rows)
    run.cov["programs_shared_object"] = len(res[2].rows)
    run.cov["programs_sampled"] = len(res[3].rows)
    run.cov["rule"] = ("one case per TLC program (pool of option objects built once, sequence of NewClient constructions "
                       "applying them - the same object possibly to several clients -, then all Hellos); class = the option "
                       "names per construction, * = object applied more than once; after every construction 3 observations "
                       "(every existing client incl. its user identity token, package default, option-less later client) "
                       "are compared field by field")
    run.assumptions += [
        "option values are two non-default values per option (table in harness/cmd/clientcfg)",
        "observed through opcua.VerifConfig (17 scalar fields incl. the dialer's Acknowledge values), through the client's "
        "uasc.SessionConfig / uasc.Config reached by reflection (user identity token type, policy id, user name / certificate / "
        "token data, password, application name, remote certificate, user key) and the Hello bytes on the wire",
        "two clients given the same caller-owned dialer (Dialer(d)) share that dialer by the caller's choice",
        "file-based options (CertificateFile, PrivateKeyFile, RemoteCertificateFile), RandomRequestID and "
        "StateChanged* options are not in the alphabet",
        "programs are sequential (no concurrent constructions)",
    ]


vf.main(body, "C23", design_ref="S2/C23")
