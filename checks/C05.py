# C05 -- UACP framing delivers exactly the frames sent under any segmentation.
# spec/UacpFraming: receiver of uacp/conn.go Receive as a state machine over an abstract byte
# stream that the network hands over in arbitrary segments; contract Expected()/Conforms().
# TLC proves the invariants for every frame list (incl. malformed sizes, ERR frames, unknown
# types, frames cut off by a close) and every segmentation within the bounds, deviation demos
# (Read instead of ReadFull, off-by-one size checks, swallowed ERR frame, missing size check)
# must be caught, and TLC emits behaviours (frame list, cut set, expected Receive results,
# per-segment progress bound) that harness/cmd/framing replays on a real uacp.Conn over
# loopback TCP, one write per segment.
import os
import vf


def body(run):
    q = run.quick()
    os.environ.setdefault("JAVA_TOOL_OPTIONS", "-XX:ParallelGCThreads=2")
    exe = [None]
    demos = ["readnotfull", "ge"] if q else ["readnotfull", "ge", "le", "swallowerr", "nolarge"]
    jobs = [
        lambda: run.tlc("UacpFraming", "UacpFraming", "UacpFraming_mc_quick.cfg" if q else "UacpFraming_mc.cfg",
                        label="contract: all frame lists x all segmentations x all interleavings", timeout=3000),
        lambda: run.tlc("UacpFraming", "UacpFraming", "UacpFraming_gen1_quick.cfg" if q else "UacpFraming_gen1.cfg",
                        mode="gen", count=False, timeout=3000,
                        label="behaviours: every single frame x cut sets"),
        lambda: run.tlc("UacpFraming", "UacpFraming", "UacpFraming_sim_quick.cfg" if q else "UacpFraming_sim.cfg",
                        mode="gen", count=False, timeout=3000,
                        label="behaviours: seeded samples of longer frame lists / more cuts"),
        lambda: exe.__setitem__(0, run.go_build("framing")),
    ]
    if not q:
        jobs.append(lambda: run.tlc("UacpFraming", "UacpFraming", "UacpFraming_gen2.cfg", mode="gen", count=False,
                                    timeout=3000, label="behaviours: every two-frame list x cut sets (<=1 cut, every unit)"))
        jobs.append(lambda: run.tlc("UacpFraming", "UacpFraming", "UacpFraming_mc3.cfg", timeout=6000,
                                    label="contract, three frames"))
        jobs.append(lambda: run.tlc("UacpFraming", "UacpFraming", "UacpFraming_live.cfg", timeout=3000,
                                    label="liveness: every behaviour reaches the quiescent state (no hang)"))
    for d in demos:
        jobs.append(lambda d=d: run.tlc("UacpFraming", "UacpFraming", "UacpFraming_bug_%s.cfg" % d,
                                        expect="violation", count=False,
                                        label="deviation demo %s must violate an invariant" % d))
    # second model: several connections of one uacp.Listener (the listener's Acknowledge is one
    # object every connection reads its receive buffer size through)
    lres = {}
    jobs.append(lambda: lres.__setitem__("mc", run.tlc("UacpFraming", "UacpListener", "UacpListener_mc.cfg", timeout=3000,
                label="listener: per-connection verdicts and Acknowledge values independent of the other connections")))
    jobs.append(lambda: lres.__setitem__("gen", run.tlc("UacpFraming", "UacpListener",
                "UacpListener_gen3.cfg" if q else "UacpListener_gen4.cfg", mode="gen", count=False, timeout=3000,
                label="listener behaviours: Hello sizes x frame size per round, every open connection after each accept")))
    jobs.append(lambda: run.tlc("UacpFraming", "UacpListener", "UacpListener_dev.cfg", expect="violation", count=False,
                                label="deviation demo: a handshake that writes through the listener's Acknowledge (InvListenerAck)"))
    jobs.append(lambda: run.tlc("UacpFraming", "UacpListener", "UacpListener_dev_verdict.cfg", expect="violation", count=False,
                                label="deviation demo: ... changes verdicts / Acknowledge of other connections"))
    res = run.parallel(*jobs)
    rows = res[1].rows + res[2].rows
    if not q:
        rows += res[4].rows
    if len(rows) < 100:
        raise vf.Inconclusive("TLC emitted only %d behaviours" % len(rows))
    run.log("TLC: %d states; %d behaviours to replay" % (run.cov["states"], len(rows)))
    results = run.go_run(exe[0], ["-workers", "8"], cases=rows, timeout=2400)
    if len(results) != len(rows):
        raise vf.Inconclusive("harness returned %d results for %d behaviours" % (len(results), len(rows)))
    run.absorb(results)
    lrows = lres["gen"].rows
    if len(lrows) < 50:
        raise vf.Inconclusive("TLC emitted only %d listener behaviours" % len(lrows))
    lresults = run.go_run(exe[0], ["-listener", "-workers", "8"], cases=lrows, timeout=1800)
    if len(lresults) != len(lrows):
        raise vf.Inconclusive("harness returned %d results for %d listener behaviours" % (len(lresults), len(lrows)))
    run.absorb(lresults)
    run.cov["behaviours_listener"] = len(lrows)
    run.cov["behaviours_single_frame"] = len(res[1].rows)
    run.cov["behaviours_sampled"] = len(res[2].rows)
    run.cov["rule"] = ("one case per TLC behaviour (frame list, cut set, close flag); class = frame kinds/fill classes x "
                       "number of cuts x cut-inside-header x close x buffer size x connection set-up "
                       "(NewConn / after Listen handshake / after Dial handshake); every case is non-trivial "
                       "(at least one Receive result is compared byte for byte or must be an error)")
    run.assumptions += [
        "abstract stream units: header bytes are single units, bodies are split into <=3 blocks; cuts fall on unit "
        "boundaries (block boundaries are seeded random byte offsets)",
        "receive buffers 8192, 65535, 2^20, 16384..65536 powers of two and seeded odd sizes",
        "unknown message types: delivery and refusal are both accepted (the statement fixes neither)",
        "hang detection: a Receive call that needs more than 6 s although all required bytes arrived (retried once)",
        "loopback TCP, segments separated by waiting for the receiver to drain its socket queue (SIOCINQ)",
        "listener behaviours: 3 (thorough 4) connections of one uacp.Listener, Hello sizes below / equal / above the "
        "listener's, one frame per open connection after every accept (sizes: small, between, = listener) and a final "
        "frame above the listener's size; whole frames in one write",
    ]


vf.main(body, "C05", design_ref="S1/C05")
