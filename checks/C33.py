# C33 -- Browse returns exactly the matching references.
# spec/Browse: contract (direction / reference type with optional subtype closure / class mask,
# null type and zero mask = all) + the implementation's filter loop as written, with the two
# defects of the pinned tree as deviation flags.  TLC proves filter = contract on a synthetic
# hierarchy (every query), shows both deviations violate it, and computes the contract answer
# for every synthetic query and for seeded/enumerated queries on real nodes of the standard
# address space (exported in-process from the running server).  Every row is replayed through
# a real client against the real server (child processes; crashes are observed, not fatal).
import json
import os
import vf


def body(run):
    q = run.quick()
    exe = [None]
    box = {}

    def std_chain():
        # build, export a seeded sample of the standard address space from the real server
        # (in-process), then let TLC compute the rows on it
        exe[0] = run.go_build("browse")
        space_path = run.tmp("space.json")
        run.go_run(exe[0], ["-export", space_path, "-nodes", str(run.pick(80, 300))], timeout=900)
        if not os.path.exists(space_path):
            raise vf.Inconclusive("space export missing")
        text = open(space_path).read()
        sp = json.loads(text)
        run.log("exported %d nodes, %d reference types" % (len(sp["nodes"]), len(sp["types"])))
        if len(sp["nodes"]) < 20 or len(sp["types"]) < 30:
            raise vf.Inconclusive("exported space too small")
        box["sp"], box["path"] = sp, space_path
        jobs = [
            lambda: run.tlc("Browse", "BrowseStd", run.pick("BrowseStd_sample_q.cfg", "BrowseStd_sample_t.cfg"), mode="gen",
                            files={"space.json": text}, timeout=3000,
                            label="rows: seeded (node, query) draws on the exported standard space; contract re-checked on real data"),
            lambda: run.tlc("Browse", "BrowseStd", "BrowseStd_dev.cfg", expect="violation", count=False,
                            files={"space.json": text}, timeout=3000,
                            label="deviation demo on the real hierarchy"),
        ]
        if not q:
            small = dict(sp)
            keep = sorted(sp["nodes"], key=lambda k: (len(sp["nodes"][k]) > 400, k))[:60]
            small["nodes"] = {k: sp["nodes"][k] for k in keep}
            jobs.append(lambda: run.tlc("Browse", "BrowseStd", "BrowseStd_all.cfg", mode="gen",
                                        files={"space.json": json.dumps(small)}, timeout=3000,
                                        label="rows: every relevant query on 60 exported nodes"))
        r = run.parallel(*jobs)
        return r[0].rows + (r[2].rows if not q else [])

    def dyn_chain():
        # the address space changes between browses (AddSubtype / AddRef through the server API):
        # TLC checks the contract on the space of every phase and emits the same queries per phase
        rows = []
        gens = run.parallel(*[
            (lambda p=p: run.tlc("Browse", "BrowseSyn", "BrowseSyn_dyn_p%d.cfg" % p, mode="gen", timeout=1500,
                                 label="rows + contract on the space after %d group(s) of additions" % p))
            for p in (0, 1, 2)])
        for p, g in enumerate(gens):
            for r in g.rows:
                r["phase"] = p
                rows.append(r)
        return rows

    res = run.parallel(
        lambda: run.tlc("Browse", "BrowseSyn", run.pick("BrowseSyn_mc_q.cfg", "BrowseSyn_mc.cfg"), timeout=1500,
                        label="contract: filter loop = Expected for every query on the synthetic space"),
        lambda: run.tlc("Browse", "BrowseSyn", "BrowseSyn_dev_ignore.cfg", expect="violation", count=False, timeout=1500,
                        label="deviation demo: subtype list consulted with IncludeSubtypes=FALSE"),
        lambda: run.tlc("Browse", "BrowseSyn", "BrowseSyn_dev_loop.cfg", expect="violation", count=False, timeout=1500,
                        label="deviation demo: deletion loop panics"),
        lambda: run.tlc("Browse", "BrowseSyn", run.pick("BrowseSyn_gen_q.cfg", "BrowseSyn_gen.cfg"), mode="gen",
                        count=False, timeout=1500, label="rows: every query on the synthetic space"),
        std_chain,
        dyn_chain,
    )
    syn_rows = res[3].rows
    if not [r for r in syn_rows if r.get("kind") == "space"]:
        raise vf.Inconclusive("no space row from BrowseSyn_gen")
    nq = len([r for r in syn_rows if r.get("kind") != "space"])
    std_rows = res[4]
    dyn_rows = res[5]
    ndyn = len([r for r in dyn_rows if r.get("kind") != "space"])
    sp = box["sp"]
    run.log("synthetic: %d query rows; standard space: %d query rows; changing space: %d query rows in 3 phases"
            % (nq, len(std_rows), ndyn))
    deaths = run.pick(3, 10)
    r2 = run.parallel(
        lambda: run.go_run(exe[0], ["-mode", "syn", "-max-deaths", str(deaths)], cases=syn_rows, timeout=3000),
        lambda: run.go_run(exe[0], ["-mode", "std", "-space", box["path"], "-max-deaths", str(deaths)],
                           cases=std_rows, timeout=3000),
        lambda: run.go_run(exe[0], ["-mode", "dyn", "-max-deaths", str(deaths)], cases=dyn_rows, timeout=3000),
    )
    syn_res, std_res, dyn_res = r2
    allres = syn_res + std_res + dyn_res
    if len(allres) != nq + len(std_rows) + ndyn:
        raise vf.Inconclusive("harness returned %d results for %d rows" % (len(allres), nq + len(std_rows)))
    skipped = [r for r in allres if r.get("status") == "skipped"]
    run.absorb([r for r in allres if r.get("status") != "skipped"])
    run.cov["rows_synthetic"] = nq
    run.cov["rows_standard"] = len(std_rows)
    run.cov["rows_changing_space"] = ndyn
    run.cov["skipped_after_crash_budget"] = len(skipped)
    run.cov["exported_nodes"] = len(sp["nodes"])
    run.cov["rule"] = ("one case per TLC initial state (node, direction, reference type, IncludeSubtypes, class mask); "
                       "class = direction x null/typed x subtypes flag x mask/no mask x empty/non-empty answer x "
                       "relation to the pre-repair prediction x phase; synthetic space exhaustively, standard nodes by seeded draws, "
                       "the same 960 queries before and after each of two groups of client reads + AddSubtype/AddRef additions")
    run.assumptions += [
        "the oracle is relative to the node's own reference list and the HasSubtype references read in-process "
        "(server.VerifNodeRefs); the NodeSet import itself is not checked",
        "target node class = NodeClass attribute of the target node when it exists, else the class recorded in the reference",
        "results compared as multisets of (reference type, direction, target); order and ResultMask not checked",
        "after %d server crashes per shard the remaining (crash-predicted, scheduled last) cases are skipped and counted" % deaths,
    ]


vf.main(body, "C33", design_ref="S11/C33")
