# C37 -- client and server interoperate under every supported security configuration.
# spec/Handshake: protocol run server start -> discovery -> endpoint choice -> OPN -> CreateSession ->
# signature check -> ActivateSession -> write -> read.  TLC proves InvInterop / InvTokens on the contract
# model, two deviation demos (policy missing from the table, user-token policy of a policy that is not
# enabled) must be caught, and every terminal state of the generation model (server configuration,
# pair, client key size, server key size, token type, advertised endpoints, expected outcome) is
# replayed: real server in a child process, real client discovering, selecting, connecting, writing
# and reading back.
import vf
from _family_f import dedupe, need, Background


def body(run):
    q = run.quick()
    exe = [None]
    bg = Background(
        lambda: run.tlc("Handshake", "Handshake", "Handshake_mc_quick.cfg" if q else "Handshake_mc.cfg",
                        label="contract: all invariants, honest and scripted server, endpoint and raw clients", timeout=3000),
        lambda: run.tlc("Handshake", "Handshake", "Handshake_dev_drop.cfg", expect="violation", count=False,
                        label="deviation demo: a policy missing from the policy table violates InvInterop"),
        lambda: run.tlc("Handshake", "Handshake", "Handshake_dev_tok.cfg", expect="violation", count=False,
                        label="deviation demo: user-token policy of a policy that is not enabled violates InvTokens"),
        lambda: run.tlc("Handshake", "Handshake", "Handshake_dev_tokkey.cfg", expect="violation", count=False,
                        label="deviation demo (the code's defect until 76fe2a1): token policy key limits applied to the client key violate InvInterop"),
    )
    res = run.parallel(
        lambda: None, lambda: None, lambda: None, lambda: None,
        lambda: run.tlc("Handshake", "Handshake",
                        "Handshake_gen_interop_quick.cfg" if q else "Handshake_gen_interop_thorough.cfg",
                        mode="gen", count=False, label="rows: one per terminal state of an endpoint-following client", timeout=3000),
        lambda: exe.__setitem__(0, run.go_build("handshake")),
    )
    rows = dedupe(res[4].rows)
    if not rows:
        raise vf.Inconclusive("TLC emitted no rows")
    run.log("%d interop rows to replay" % len(rows))
    results = run.go_run(exe[0], ["-prop", "C37", "-par", "6" if q else "8"], cases=rows, timeout=3000)
    need(results, rows, "interop")
    run.absorb(results)
    bg.join()
    run.cov["behaviours_replayed"] = len(rows)
    run.cov["server_configurations"] = len({vf.json.dumps(r["cfg"], sort_keys=True) for r in rows})
    run.cov["rule"] = ("one case per TLC terminal state of the generation model = (server configuration, policy, mode, "
                       "client key size, server key size, user token type); class = that tuple; quick: the four maximal "
                       "configurations (one per server key size) with the client key equal to the server key or one "
                       "step across each key size boundary (1024|2048|4096); thorough: the complete "
                       "matrix policy x mode x client key x server key x token type plus every single-pair configuration "
                       "with each token-type set")
    if not q:
        run.cov["exhaustive"] = True
    run.assumptions += [
        "key sizes are the ones with committed test keys: 1024, 2048, 3072, 4096 (no 1536-bit key)",
        "username tokens use a fixed test user; the server accepts any credentials (no user database in gopcua server)",
        "discovery uses a None channel as any client does (falls back to a secured channel if refused)",
    ]


vf.main(body, "C37", design_ref="S8/C37")
