# C02 -- decoding arbitrary bytes is safe: no panic, no hang, bounded memory.
# spec/Codec: hostile streams = canonical encodings with one length / dimension / count token replaced by a
# hostile value, truncations, overflowing dimension vectors, nesting depth classes; the contract decoder's
# invariant InvSafe (storage reserved <= 16 x input size, refused before allocation) is proved by TLC, two
# deviation demos (allocate before read, unchecked negative length) must be caught; every stream is decoded by
# the real decoder in a child process measuring runtime.MemStats.TotalAlloc against K*len + C, with a watchdog.
import vf


def body(run):
    exe = [None]
    jobs = [
        lambda: run.tlc("Codec", "Codec", "Codec_hostile_gen.cfg", mode="gen", timeout=3000,
                        label="contract InvSafe + rows: hostile streams"),
        lambda: run.tlc("Codec", "Codec", "Codec_dev_alloc.cfg", expect="violation", count=False,
                        label="deviation demo: allocating from the length prefix violates InvSafe"),
        lambda: run.tlc("Codec", "Codec", "Codec_dev_neglen.cfg", expect="violation", count=False,
                        label="deviation demo: unchecked negative array length violates InvSafe"),
        lambda: exe.__setitem__(0, run.go_build("codec")),
    ]
    res = run.parallel(*jobs)
    rows = res[0].rows
    if res[0].distinct != len(rows):
        raise vf.Inconclusive("hostile: %d states but %d rows" % (res[0].distinct, len(rows)))
    extra = run.go_run(exe[0], ["-mode", "c02gen", "-n", str(run.pick(1, 6))], cases=[])
    xrows = [r["case"] for r in extra if r.get("status") == "ok" and r.get("class") == "gen"]
    run.log("TLC: %d states; %d model rows + %d registered-type streams" % (run.cov["states"], len(rows), len(xrows)))
    results = run.go_run(exe[0], ["-mode", "c02"], cases=rows + xrows, timeout=2400)
    if len(results) != len(rows) + len(xrows):
        raise vf.Inconclusive("harness returned %d results for %d rows" % (len(results), len(rows) + len(xrows)))
    run.absorb(results)
    run.cov["rows_model"] = len(rows)
    run.cov["rows_registered_types"] = len(xrows)
    run.cov["rule"] = ("one case per TLC state (base value x replaced field x hostile value, truncation point, dimension "
                       "vector, nesting depth) plus length-prefix mutations of encodings of every registered structure; "
                       "class = type x field x decodes")
    run.assumptions += [
        "allocation bound: TotalAlloc delta of the decode call <= 64 x len(input) + 1 MiB",
        "prompt: a result within 10 s per input; address space limit 6 GiB and a 3 GiB watchdog as backstops",
        "class-based adversarial generation, not an exhaustive byte fuzzer",
    ]


vf.main(body, "C02", design_ref="S12/C02")
