# C02 -- decoding arbitrary bytes is safe: no panic, no hang, bounded memory.
# spec/Codec: hostile streams = canonical encodings with one length / dimension / count token replaced by a
# hostile value, truncations, overflowing dimension vectors, nesting depth classes; the contract decoder's
# invariant InvSafe (storage reserved <= 16 x input size, refused before allocation) is proved by TLC, two
# deviation demos (allocate before read, unchecked negative length) must be caught; every stream is decoded by
# the real decoder in a child process measuring runtime.MemStats.TotalAlloc against K*len + C, with a watchdog.
import codec_common as cc
import vf


def body(run):
    q = run.quick()
    exe = run.go_build("codec")
    files = cc.schema_files(run, exe)
    res = run.parallel(
        lambda: run.tlc("Codec", "Codec", "Codec_hostile_gen.cfg", mode="gen", timeout=3000,
                        label="contract InvSafe + rows: hostile streams"),
        lambda: run.tlc("Codec", "Codec", "Codec_dev_alloc.cfg", expect="violation", count=False,
                        label="deviation demo: allocating from the length prefix violates InvSafe"),
        lambda: run.tlc("Codec", "Codec", "Codec_dev_neglen.cfg", expect="violation", count=False,
                        label="deviation demo: unchecked negative array length violates InvSafe"),
        lambda: cc.value_rows(run, count=False),
        lambda: cc.struct_rows(run, files, False, count=False))
    rows = res[0].rows
    if res[0].distinct != len(rows):
        raise vf.Inconclusive("hostile: %d states but %d rows" % (res[0].distinct, len(rows)))
    # every built-in value and every registered structure: one of the positions the model marks as length /
    # count / dimension replaced by a hostile value, and truncations at token boundaries
    base = res[3].rows + res[4].rows
    if q:   # seeded sample of the bases in the quick tier
        import random
        rnd = random.Random(run.seed)
        base = [b for b in base if rnd.random() < 0.1]
    xrows = cc.derive(run, exe, "c02derive", base, run.pick(1, 3))
    run.log("TLC: %d states; %d model rows + %d derived streams" % (run.cov["states"], len(rows), len(xrows)))
    results = run.go_run(exe, ["-mode", "c02"], cases=rows + xrows, timeout=3000)
    if len(results) != len(rows) + len(xrows):
        raise vf.Inconclusive("harness returned %d results for %d rows" % (len(results), len(rows) + len(xrows)))
    run.absorb(results)
    run.cov["rows_model"] = len(rows)
    run.cov["rows_derived"] = len(xrows)
    run.cov["rule"] = ("one case per TLC state (base value x replaced field x hostile value, truncation point, dimension "
                       "vector, nesting depth) plus length-prefix mutations of encodings of every registered structure; "
                       "class = type x field x decodes")
    run.assumptions += [
        "allocation bound: TotalAlloc delta of the decode call <= 64 x len(input) + 1 MiB",
        "prompt: a result within 5 s per input; address space limit 6 GiB and a 3 GiB watchdog as backstops",
        "class-based adversarial generation, not an exhaustive byte fuzzer",
    ]


vf.main(body, "C02", design_ref="S12/C02")
