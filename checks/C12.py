# C12 -- chunk streams from any conforming peer are reassembled correctly.
# spec/ScRecv with the reference sender (Interleave = TRUE: chunks of several messages interleaved
# by request id, abort chunks, numbering that wraps to small values including 0) and no adversary.
# TLC proves InvReassembly (every completed, non-aborted message is delivered whole, in completion
# order; an abort cancels exactly its own message) for the contract receiver, shows that
# mergeChunks' duplicate filter breaks it (Dev_MergeDupFilter), and emits every stream of the
# bounded model.  Each stream is written by the harness's own conforming chunk writer (own layout,
# numbering, padding; protected with the channel's real keys) into a real client / server channel;
# the receiver's events must be the ones the specification computed.
import vf
import screcv_common as sc


def body(run):
    q = run.quick()
    exe = [None]
    res = run.parallel(
        lambda: run.tlc("ScRecv", "ScRecv_MC", "ScRecv_c12_mc.cfg", workers=2, label="contract: reference sender, 6 plans x 5 numberings, all interleavings"),
        lambda: run.tlc("ScRecv", "ScRecv_MC", "ScRecv_c12_dev.cfg", workers=1, expect="violation", count=False,
                        label="deviation demo: mergeChunks' duplicate filter violates InvReassembly"),
        lambda: run.tlc("ScRecv", "ScRecv_MC", "ScRecv_c12_gen_q.cfg" if q else "ScRecv_c12_gen_t.cfg", mode="gen", count=False,
                        label="streams with contract and as-is outcome of every chunk"),
        lambda: run.tlc("ScRecv", "ScRecv_MC", "ScRecv_c12_gen_lim.cfg", mode="gen", count=False,
                        label="streams at the negotiated limits: bodies at / near / above MaxMessageSize in many small and few large chunks, abort rounds (MaxChunks 40)"),
        lambda: exe.__setitem__(0, run.go_build("screcv")),
    )
    rows = res[2].rows
    lim = res[3].rows
    combos = [("None", "None"), ("Basic256Sha256", "Sign"), ("Basic256Sha256", "SignAndEncrypt")]
    if not q:
        combos += [c for c in sc.SECURED if c[0] != "Basic256Sha256"]
    cases = []
    salt = 0
    for pol, mode in combos:
        for side in ("server", "client"):
            salt += 1
            n = run.pick(8, None if pol in ("None", "Basic256Sha256") else 10)   # per split shape
            for b in sc.stratified(rows, lambda r: r.get("split"), n, run.seed, salt):
                c = dict(b)
                c.update({"prop": "C12", "policy": pol, "mode": mode, "side": side, "sender": "ref", "salt": salt})
                cases.append(c)
    # conforming streams at the negotiated limits (MaxMessageSize 16384, MaxChunkCount 40 through the ACK)
    for b in lim:
        for side in ("server", "client"):
            if q and (b["mode"] == "None") != (side == "server") and b["split"] == "even":
                continue
            c = dict(b)
            c.update({"prop": "C12", "policy": "None" if b["mode"] == "None" else "Basic256Sha256", "side": side, "sender": "ref",
                      "maxmsg": 16384, "salt": 77})
            cases.append(c)
    run.log("TLC: %d states; %d streams; %d cases to replay" % (run.cov["states"], len(rows), len(cases)))
    tpath = run.tmp("traces.ndjson")
    results = run.go_run(exe[0], ["-par", "6", "-trace", tpath], cases=cases, timeout=run.pick(600, 2400))
    if len(results) != len(cases):
        raise vf.Inconclusive("harness returned %d results for %d cases" % (len(results), len(cases)))
    for r in results:   # every stream is non-trivial: class = side x mode x plan x numbering
        c = r.get("case", {})
        r["class"] = "C12/%s/%s/%s/%s/plan=%s/first=%s" % (c.get("side"), c.get("policy"), c.get("mode"), c.get("split"),
                                                      "".join("%d%s" % (m["n"], "a" if m["ab"] else "") for m in c.get("plan", [])),
                                                      c.get("sp", {}).get("first"))
        r["nontrivial"] = True
    sc.log_inconclusive(run, results)
    run.absorb(results)
    # code -> spec: TLC validates the recorded inputs + receiver events against the receiver of ScRecv
    ok, n = sc.validate_traces(run, tpath, "trace validation of the replayed behaviours")
    if ok:
        run.cov["traces_validated_against_impl"] += n
        bad, _ = sc.validate_traces(run, tpath, "binding self-test: one recorded verdict flipped", corrupt=True)
        if bad is not False:
            raise vf.Inconclusive("trace validation accepted a corrupted trace")
        run.cov["corrupted_trace_rejected"] = True
    elif ok is False and not run.violations:
        run.violation("%s:recorded-trace-not-a-behaviour-of-the-specification" % run.prop.lower(),
                      "TLC rejects the recorded receiver events (see out/log/%s)" % run.prop)

    run.cov["streams_generated"] = len(rows) + len(lim)
    run.cov["rule"] = ("one case per (TLC stream, policy, mode, receiving side); class = receiver x policy x mode x plan "
                       "(chunks per message, aborts) x numbering (plain / four shapes of the wrap); the split shape of the bodies (any / even / 1-2 byte first / 1-2 byte last part) is part of the stream")
    run.assumptions += [
        "message bodies are encoded with ua.Encode (codec = family A); chunk layout, numbering, padding and the split points are the harness's own",
        "the channel's symmetric keys are taken from the sending side's algorithm object (uasc.VerifInstanceAlgo); HMAC/AES are gopcua's primitives (family of C14)",
        "streams that start near the wrap are preceded by intact filler messages so that every number is less than 2^31 ahead of the previous one",
    ]


vf.main(body, "C12", design_ref="S5/C12")
