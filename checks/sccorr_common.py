# Shared by C18.py / C19.py: sampling of TLC behaviours of spec/ScCorr and case building for
# harness/cmd/sccorr.
import json
import os
import random


def race_env():
    """Under C36 the harness is built with -race: reports go to the log files of VERIF_RACE_DIR and
    must not turn the harness's exit code into 66 (the workload has to run to its end)."""
    d = os.environ.get("VERIF_RACE_DIR")
    if not d:
        return None
    return {"GORACE": "log_path=%s/race halt_on_error=0 history_size=4 exitcode=0" % d}


def step_kinds(b):
    ks = []
    for s in b["steps"]:
        k = s["a"]
        if s["a"] == "resp":
            k += ":" + s["kind"]
        if s.get("c") == 0 and s["a"] in ("call", "resp", "dup", "timeout", "errpop"):
            k += ":opn"
        ks.append(k)
    return ks


def beh_class(b):
    """class of a behaviour = multiset of step kinds + multiset of call outcomes (same rule as the harness)"""
    ks = sorted(step_kinds(b))
    outs = sorted(r["out"] for r in b["results"])
    return ",".join(ks) + "/" + ",".join(outs)


def order_class(b):
    """finer class: the sequence of step kinds (caller identities dropped)"""
    return " ".join(step_kinds(b))


def stratified(rows, n, seed, key=beh_class):
    """Seeded sample of n behaviours that covers as many classes as possible: round-robin over
    the classes (shuffled), one behaviour per class per round."""
    rnd = random.Random(seed)
    by = {}
    for b in rows:
        by.setdefault(key(b), []).append(b)
    classes = sorted(by)
    rnd.shuffle(classes)
    for c in classes:
        rnd.shuffle(by[c])
    out = []
    i = 0
    while len(out) < n and any(by.values()):
        c = classes[i % len(classes)]
        if by[c]:
            out.append(by[c].pop())
        i += 1
        if i > 10 * (n + len(classes)):
            break
    return out, len(classes)


def has(b, *acts):
    return any(s["a"] in acts for s in b["steps"])


def mk_cases(behs, mode, idseed, idmax, seed, client_share=3, start=0, policy="None", secmode="None", collide=False, ctxdl_share=0):
    """Concretisation choices that are not part of the behaviour: level (uasc channel or the typed
    opcua.Client API; the latter has no per-call timeout and no renewal trigger, so only
    behaviours without those), request-id wrap (counter seeded so that the model's wrap point is
    the real 2^32-1 -> 1 wrap)."""
    cases = []
    for i, b in enumerate(behs):
        n = start + i
        client_ok = mode == "script" and not has(b, "timeout") and not any(s.get("c") == 0 for s in b["steps"] if s["a"] == "call")
        level = "client" if (client_ok and client_share and n % client_share == 0) else "uasc"
        # further concretisation choices: responses whose ByteString payload needs several chunks
        # (every 4th case), callers' contexts carrying a deadline far later than the timeout
        cases.append({"n": n, "mode": mode, "level": level, "wrap": (n % 2 == 0) and level == "uasc" and not collide,
                      "big": n % 4 == 1, "collide": collide, "ctxdl": bool(ctxdl_share) and n % ctxdl_share == 0,
                      "idseed": idseed, "idmax": idmax, "policy": policy, "secmode": secmode, "beh": b})
    return cases


def corrupt(case, rnd):
    """Binding demonstration: change what the specification expects (one call outcome, or the
    addressee of a handed response); the replay must then be rejected. Returns None when the
    behaviour has no call whose expectation can be changed cheaply (timeouts would make the
    harness wait for a timer arm that never comes)."""
    c = json.loads(json.dumps(case))
    rs = [r for r in c["beh"]["results"] if r["c"] != 0 and r["out"] in ("ok", "type", "fault", "ctx")]
    if not rs:
        return None, None
    handed = [r for r in rs if r["out"] == "ok"]
    if handed and rnd.random() < 0.5:
        r = rnd.choice(handed)
        r["mid"] = r["mid"] + 17          # the response the call must return is another one
        return c, "expected-response-changed"
    r = rnd.choice(rs)
    r["out"] = {"ok": "fault", "type": "ok", "fault": "ok", "ctx": "fault"}[r["out"]]
    return c, "expected-outcome-changed"
