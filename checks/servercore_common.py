# Shared driver of the ServerCore checks (C31, C35, C32): contract model check + deviation
# demos + script generation by TLC (spec/ServerCore), execution of the scripts against the
# real server (harness/cmd/servercore, child processes), validation of the recorded events by
# TLC against ServerCoreTrace.  The verdict comes from the trace validation only:
#   - an event accepted only through a deviating disjunct -> violation keyed by the deviation;
#   - an event no disjunct accepts                        -> violation "unexplained-...".
import json
import vf

SVC = {"Read": "read", "Write": "write", "Browse": "browse", "Unsupported": "unsupported-service",
       "CreateSub": "createsubscription", "DeleteSub": "deletesubscriptions", "CreateItem": "createmonitoreditems",
       "SetMode": "setmonitoringmode", "DeleteItem": "deletemonitoreditems", "Close": "closesession",
       "CreateSession": "createsession", "Activate": "activatesession"}

DEVKEY = {
    "subid-reuse": "createsubscription-returns-id-in-use",
    "itemid-reuse": "createmonitoreditems-returns-id-in-use",
    "deletesub-foreign-effective": "deletesubscriptions-foreign-session-effective",
    "createitem-foreign-effective": "createmonitoreditems-on-foreign-subscription",
    "setmode-foreign-effective": "setmonitoringmode-foreign-session-effective",
    "deleteitem-foreign-effective": "deletemonitoreditems-foreign-session-effective",
    "read-ignores-access": "read-returns-value-without-currentread",
    "write-ignores-access": "write-accepted-without-currentwrite",
}


def dev_key(row):
    d = row["dev"]
    svc = SVC.get(row["svc"], row["svc"].lower())
    if d.startswith("nosession-"):
        return "%s-answered-without-activated-session" % svc
    if d.startswith("crash-"):
        if not row.get("valid", True):
            return "%s-without-session-panics-server" % svc
        return "%s-%s-id-panics-server" % (svc, "known" if row.get("known", True) else "unknown")
    return DEVKEY.get(d, d)


def relevant(prop, row):
    """Does a deviation taken by the trace concern this property?  (Deviations of the other
    ServerCore properties are recorded as notes: their own checks report them.)"""
    d = row["dev"]
    if d.startswith("nosession-"):
        return prop == "C35"
    if d.startswith("crash-"):
        if not row.get("valid", True):
            return prop == "C35"
        return prop == ("C31" if row["svc"] in ("Read", "Write") else "C32")
    if d in ("read-ignores-access", "write-ignores-access"):
        return prop == "C31"
    return prop == "C32"


def validate(run, scripts, label):
    """scripts: list of (case, events). Returns (#accepted scripts, deviations [(key, case, event)], rejected [(case, event)])."""
    todo = list(range(len(scripts)))
    devs, rejected = [], []
    accepted = 0
    for attempt in range(6):
        if not todo:
            break
        lines, owner = [], []
        for si in todo:
            for ei, e in enumerate(scripts[si][1]):
                e = dict(e)
                e.pop("raw", None)
                lines.append(json.dumps(e))
                owner.append((si, ei))
        tr = run.tlc("ServerCore", "ServerCoreTrace", "ServerCoreTrace.cfg", mode="trace",
                     files={"trace.ndjson": "\n".join(lines) + "\n"}, timeout=3000,
                     label="%s: trace validation of %d events (pass %d)" % (label, len(lines), attempt + 1))
        if tr.violated or tr.error:
            run.save_text("trace-%s.out" % label, tr.out)
            raise vf.Inconclusive("trace validation did not run properly: %s" % (tr.violated or tr.error))
        rows = tr.rows
        hwm = max([r["l"] for r in rows] + [0])
        for r in rows:
            if r["l"] >= 1 and r.get("dev"):
                si, ei = owner[r["l"] - 1]
                devs.append((dev_key(r), scripts[si][0], scripts[si][1][ei], relevant(label.split("-")[0], r)))
        if hwm >= len(lines):
            accepted += len(todo)
            todo = []
            break
        # event hwm+1 (1-based) is not a step of the specification
        si, ei = owner[hwm]
        rejected.append((scripts[si][0], scripts[si][1][ei]))
        done_before = [s for s in todo if s < si]
        accepted += len(done_before)
        todo = [s for s in todo if s > si]
    if todo:
        # every rejected event is an observation of the real server that the specification forbids:
        # report those (exit 1); the traces not looked at any more are only counted
        run.cov["traces_not_validated_after_6_rejections"] = len(todo)
        run.log("6 traces rejected outright; %d traces left unvalidated" % len(todo))
    return accepted, devs, rejected


def core_check(run, prop, gen_cfg, mc_cfgs, dev_cfgs, simulate=None, depth=None, max_deaths=6, binding=True):
    exe = [None]
    thunks = []
    for cfg, label in mc_cfgs:
        thunks.append(lambda cfg=cfg, label=label: run.tlc("ServerCore", "ServerCore", cfg, label=label, timeout=3000))
    for cfg, label in dev_cfgs:
        thunks.append(lambda cfg=cfg, label=label: run.tlc("ServerCore", "ServerCore", cfg, expect="violation",
                                                          count=False, label=label, timeout=3000))
    gens = gen_cfg if isinstance(gen_cfg, list) else [(gen_cfg, simulate, depth)]
    for cfg, sim, dep in gens:
        thunks.append(lambda cfg=cfg, sim=sim, dep=dep: run.tlc(
            "ServerCore", "ServerCoreGen", cfg, mode="gen", simulate=sim, depth=dep,
            label="scripts generated from the contract model" + (" (simulation, seeded)" if sim else " (exhaustive)"),
            timeout=3000))
    thunks.append(lambda: exe.__setitem__(0, run.go_build("servercore")))
    res = run.parallel(*thunks)
    seen, scripts_in = set(), []
    for gen in res[len(mc_cfgs) + len(dev_cfgs):-1]:
        for r in gen.rows:
            k = json.dumps(r, sort_keys=True)
            if k not in seen:
                seen.add(k)
                scripts_in.append(r)
    if not scripts_in:
        raise vf.Inconclusive("no scripts generated")
    # scheduling only: scripts that use never-issued ids last (on a tree where such a request kills the
    # server they consume the crash budget; everything else has been run by then)
    scripts_in.sort(key=lambda r: sum(1 for o in r["ops"] if o.get("k") == 9999))
    run.log("%d distinct scripts" % len(scripts_in))
    results = run.go_run(exe[0], ["-max-deaths", str(max_deaths)], cases=scripts_in, timeout=3000)
    if len(results) != len(scripts_in):
        raise vf.Inconclusive("harness returned %d results for %d scripts" % (len(results), len(scripts_in)))
    skipped = [r for r in results if r.get("status") == "skipped"]
    live = [r for r in results if r.get("status") != "skipped"]
    run.absorb(live, sample_n=2)
    scripts = [(r["case"], r["obs"]["events"]) for r in live if r.get("status") == "ok" and r.get("obs")]
    crashed = sum(1 for r in live if r.get("status") == "ok" and r["obs"].get("crashed"))
    accepted, devs, rejected = validate(run, scripts, prop)
    run.cov["traces_validated_against_impl"] += accepted
    run.cov["scripts"] = len(scripts_in)
    run.cov["events"] = sum(len(s[1]) for s in scripts)
    run.cov["server_crashes_observed"] = crashed
    run.cov["skipped_after_crash_budget"] = len(skipped)
    other = {}
    for key, case, ev, rel in devs:
        if rel:
            run.violation(key, "accepted only through a deviating disjunct: %s" % json.dumps(ev)[:700],
                          case={"script": case, "event": ev})
        else:
            other[key] = other.get(key, 0) + 1
    if other:
        run.cov["deviations_of_other_properties"] = other
        run.log("deviations belonging to other properties (reported by their own checks): %s" % other)
    for case, ev in rejected:
        key = "unexplained-%s-%s" % (SVC.get(ev["ev"], ev["ev"]), ev["res"])
        run.violation(key, "no disjunct of the specification accepts this event: %s" % json.dumps(ev)[:700],
                      case={"script": case, "event": ev})
    clean = [sc_ for sc_ in scripts if sc_[1] and all(e["res"] != "crash" for e in sc_[1]) and sc_[1][-1]["nodes"]]
    if binding and clean:
        # binding demo: corrupt one recorded snapshot / answer and see the rejection
        case, evs = clean[0]
        bad = [dict(e) for e in evs]
        bad[-1]["nodes"] = [dict(n, val=n["val"] + 17) for n in bad[-1]["nodes"]]
        _, _, rej = validate(run, [(case, bad)], prop + "-selftest")
        if not rej:
            raise vf.Inconclusive("binding self-test: a corrupted node snapshot was accepted")
        run.cov["binding_selftest"] = "corrupted node value in the last event of the first trace: rejected"
    return scripts
