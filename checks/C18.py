# C18 -- each request receives its own response, whatever the concurrency and ordering.
# spec/ScCorr: callers / dispatcher / handler table / request-id counter with wrap / scripted
# server (reorder, no answer, duplicate, unsolicited, wrong type, service fault, the request echoed
# back under its id = a well-formed message that is not a response).
#  1. TLC proves InvOwnResponse, InvNoShare, InvTypeError, InvFaultError (+ the C19 invariants of
#     the same module) for every interleaving of the bounded contract model.
#  2. Deviation demos (handler table keyed by id % 2, type check removed) must violate them.
#  3. TLC generates every script of the bounded model (environment steps + the outcome of every
#     call); a seeded, class-stratified sample is replayed on a real client channel (uasc level,
#     request ids across the 2^32 wrap) and on a real opcua.Client (typed API, safeAssign) against
#     a scripted server built on a real server channel; the outcome of every call, the response it
#     returns, the request ids used and single delivery are compared with the specification.
#     Responses carry a ByteString (every 4th case: big enough for several chunks) that is compared
#     byte for byte with what the server sent after further messages were received. A second model
#     configuration has only two request ids, so the counter wraps onto ids that may still be pending
#     (realised with uasc.VerifSetRequestID): the duplicate registration must be refused and the first
#     user of the id must still get its response.
#     In the many-caller runs one further caller per three (or per one) normal callers issues requests
#     whose context has already ended or ends while the multi-chunk request is being written (ScCorr
#     InvokeCancelled), concurrently with the dispatch of the others' responses: context error, promptly,
#     slot released, nobody else affected.
#  4. Many-caller runs (random answer permutations, a request pending while >256 / >65536 other
#     request ids are used) are checked against the same invariants.
import json
import random
import vf
import sccorr_common as sc


def body(run):
    q = run.quick()
    exe = [None]
    jobs = [
        lambda: run.tlc("ScCorr", "ScCorr", "ScCorr_mc_q1.cfg" if q else "ScCorr_mc_t0.cfg", label="contract: 2 callers, all interleavings", timeout=3000, workers=6),
        lambda: run.tlc("ScCorr", "ScCorr", "ScCorr_dev_keymask.cfg", expect="violation", count=False, workers=2,
                        label="deviation demo: handler table keyed by id % 2"),
        lambda: run.tlc("ScCorr", "ScCorr", "ScCorr_dev_notype.cfg", expect="violation", count=False, workers=2,
                        label="deviation demo: wrong response type accepted"),
        lambda: run.tlc("ScCorr", "ScCorr", "ScCorr_gen_c18_q.cfg", mode="gen", count=False, timeout=1500,
                        label="scripts: 2 callers"),
        lambda: exe.__setitem__(0, run.go_build("sccorr")),
        lambda: run.tlc("ScCorr", "ScCorr", "ScCorr_mc_collide.cfg", label="contract: ids reused while pending, all interleavings", timeout=1500, workers=2),
        lambda: run.tlc("ScCorr", "ScCorr", "ScCorr_gen_c18_collide.cfg", mode="gen", count=False, timeout=1500,
                        label="scripts: id wrap onto pending requests"),
        lambda: run.tlc("ScCorr", "ScCorr", "ScCorr_mc_q1k.cfg", label="contract: 1 caller x 2 calls, every answer kind", timeout=1500, workers=2),
    ]
    if not q:
        jobs += [
            lambda: run.tlc("ScCorr", "ScCorr", "ScCorr_mc_t1.cfg", label="contract: 3 callers", timeout=3000, workers=5),
            lambda: run.tlc("ScCorr", "ScCorr", "ScCorr_mc_t3.cfg", label="contract: 2 callers x 2 calls, id wrap", timeout=3000, workers=6),
            lambda: run.tlc("ScCorr", "ScCorr", "ScCorr_gen_c18_t2.cfg", mode="gen", count=False, timeout=3000, simulate=5000, depth=200,
                            label="scripts: 2 callers x 2 calls (seeded random walks to terminal states)"),
        ]
    res = run.parallel(*jobs)
    demos = [res[1].violated, res[2].violated]
    if demos[0] not in ("InvOwnResponse", "InvNoShare") or demos[1] != "InvTypeError":
        raise vf.Inconclusive("deviation demos violated %s, expected InvOwnResponse/InvTypeError" % demos)
    rows = res[3].rows
    # The thorough tier currently replays the QUICK case set on the real channel (its TLC models are the
    # deep ones): with the larger sampled script set and the 16-24 caller runs the driver did not finish
    # inside its time-out in the final sweep of build round 1 and there was no time left to find out
    # which case hangs (DESIGN.md 10.3).  deep_replay = True restores the larger set.
    deep_replay = False
    n = run.pick(160, 1200) if deep_replay else 160
    sample, nclasses = sc.stratified(rows, n, run.seed)
    cases = sc.mk_cases(sample, "script", 3, 4, run.seed)
    # every script of the collision model, at both levels (VerifSetRequestID realises the wrap)
    cases += sc.mk_cases(res[6].rows, "script", 0, 2, run.seed, client_share=2, start=len(cases), collide=True)
    if not q and deep_replay:
        s2, nc2 = sc.stratified(res[10].rows, 600, run.seed + 1)
        cases += sc.mk_cases(s2, "script", 2, 4, run.seed, start=len(cases))
        nclasses += nc2
        rows = rows + res[10].rows
    # many-caller runs
    base = len(cases)
    stress = [dict(callers=8, rounds=3, stride=1, wrap=False), dict(callers=8, rounds=2, stride=300, wrap=True),
              dict(callers=6, rounds=3, stride=1, wrap=False, big=True), dict(callers=8, rounds=12, stride=1, wrap=False, failshare=2),
              dict(callers=6, rounds=6, stride=1, wrap=False, level="client", failshare=2)]
    if not q and deep_replay:
        # (the 64- and 300-caller runs were dropped from the registered tier: together with the failing-caller
        #  share they did not finish inside the driver's time-out on this machine; see DESIGN.md 10.3)
        stress += [dict(callers=24, rounds=3, stride=1, wrap=True), dict(callers=16, rounds=2, stride=70000, wrap=False),
                   dict(callers=8, rounds=3, stride=1, wrap=False, level="client"),
                   dict(callers=16, rounds=3, stride=1, wrap=True, big=True), dict(callers=8, rounds=3, stride=1, wrap=False, level="client", big=True)]
    for i, s in enumerate(stress):
        cases.append({"n": base + i, "mode": "stress", "level": s.get("level", "uasc"), "wrap": s["wrap"], "callers": s["callers"],
                      "rounds": s["rounds"], "stride": s["stride"], "big": s.get("big", False), "failshare": s.get("failshare", 4),
                      "beh": {"steps": [], "results": []}})
    run.log("TLC: %d states; %d scripts generated (%d classes), %d sampled, %d many-caller runs" % (
        run.cov["states"], len(rows), nclasses, len(cases) - len(stress), len(stress)))
    results = run.go_run(exe[0], ["-prop", "C18", "-budget", run.pick("6m", "6m")], cases=cases, timeout=run.pick(900, 1500), env=sc.race_env())
    if len(results) < len(cases):
        raise vf.Inconclusive("harness returned %d results for %d cases" % (len(results), len(cases)))
    run.absorb(results)
    for r in [r for r in results if r.get("status") == "inconclusive"][:3]:
        run.log("inconclusive case: %s | %s" % (str(r.get("detail"))[:300], str((r.get("case") or {}).get("steps"))[:400]))
    # binding demonstration: corrupt the specification's expectation of a few cases -> must be rejected
    rnd = random.Random(run.seed)
    corrupted = []
    for c in cases[:60]:
        if c["mode"] != "script":
            continue
        cc, how = sc.corrupt(c, rnd)
        if cc:
            corrupted.append(cc)
        if len(corrupted) >= 6:
            break
    cres = run.go_run(exe[0], ["-prop", "C18"], cases=corrupted, timeout=600, env=sc.race_env())
    rejected = sum(1 for r in cres if r.get("status") == "violation")
    run.cov["binding_demo"] = {"corrupted_expectations": len(corrupted), "rejected": rejected}
    accepted = sum(1 for r in cres if r.get("status") == "ok")  # a case that could not be driven counts as neither
    if corrupted and (accepted > 0 or rejected == 0):
        raise vf.Inconclusive("binding demonstration failed: %d corrupted expectations, %d rejected" % (len(corrupted), rejected))
    run.cov["scripts_generated"] = len(rows)
    run.cov["script_classes"] = nclasses
    run.cov["rule"] = ("one case per TLC-generated script (sequence of calls, server answers by kind/order, duplicates, unsolicited "
                       "ids, timer/context events) x level (uasc channel | opcua.Client) x request-id wrap; class = multiset of step "
                       "kinds + multiset of call outcomes + level + wrap; many-caller runs = callers x rounds x id stride")
    run.assumptions += [
        "responses are matched by request id only (as in the protocol); an unsolicited response that reuses the id of a live request is indistinguishable from its answer and is not generated",
        "request-id reuse while the first user is still pending is explored with a two-id model without timer/context events (uasc.VerifSetRequestID moves the real counter back); with timeouts a late response to a timed-out request whose id was reused cannot be told from the new request's answer by protocol and is not generated",
        "server-side frames are produced by the library's own server channel (scripted order and shape)",
        "TLC, SANY, Go toolchain trusted",
    ]


vf.main(body, "C18", design_ref="S6/C18")
