# C30 -- the server only opens channels with security settings it enabled, and advertises exactly those.
# spec/Handshake: InvOnlyEnabled, InvAdvertisedExactly.  TLC proves them on the contract model over the
# configuration family (empty, full, singles, complements; thorough: + two-pair sets, other key sizes) x
# every (policy, mode) a client can put into an OPN; the deviation demos (server adopts the client's
# policy/mode; extra advertised endpoint) must be caught; every (configuration, OPN) state is replayed on
# the real server (child process) with the real client channel; expected accept/refuse and the expected
# advertised list are the specification's.
import vf
from _family_f import dedupe, need, Background


def body(run):
    q = run.quick()
    exe = [None]
    bg = Background(
        lambda: run.tlc("Handshake", "Handshake", "Handshake_mc_quick.cfg" if q else "Handshake_mc.cfg",
                        label="contract: all invariants, with and without an earlier secured connection", timeout=3000),
        lambda: run.tlc("Handshake", "Handshake", "Handshake_dev_adopt.cfg", expect="violation", count=False,
                        label="deviation demo: adopting the client's policy/mode violates InvOnlyEnabled"),
        lambda: run.tlc("Handshake", "Handshake", "Handshake_dev_adv.cfg", expect="violation", count=False,
                        label="deviation demo: an endpoint for a pair that is not enabled violates InvAdvertisedExactly"),
        lambda: run.tlc("Handshake", "Handshake", "Handshake_dev_recycled.cfg", expect="violation", count=False,
                        label="deviation demo: channel state of an earlier secured connection leaking into a later OPN violates InvOnlyEnabled"),
    )
    res = run.parallel(
        lambda: None, lambda: None, lambda: None,
        lambda: run.tlc("Handshake", "Handshake",
                        "Handshake_gen_opn_quick.cfg" if q else "Handshake_gen_opn_thorough.cfg",
                        mode="gen", count=False, label="rows: (configuration, server history, OPN policy, mode) -> accept/refuse; advertised lists", timeout=3000),
        lambda: exe.__setitem__(0, run.go_build("handshake")),
    )
    rows = dedupe(res[3].rows)
    if not q:
        # the quantifier of the property: every subset of the 11 supported pairs (x server key x token types)
        r_all = run.tlc("Handshake", "Handshake", "Handshake_mc_all.cfg", timeout=6000,
                        label="contract over all 7008 well-formed configurations (every subset of the 11 pairs)")
        run.cov["all_configurations_states"] = r_all.distinct
    if not rows:
        raise vf.Inconclusive("TLC emitted no rows")
    run.log("%d rows to replay" % len(rows))
    results = run.go_run(exe[0], ["-prop", "C30", "-par", "6" if q else "8"], cases=rows, timeout=3000)
    need(results, rows, "opn")
    run.absorb(results)
    bg.join()
    run.cov["behaviours_replayed"] = len(rows)
    run.cov["server_configurations"] = len({vf.json.dumps(r["cfg"], sort_keys=True) for r in rows})
    run.cov["not_driven"] = sum(1 for r in results if r.get("status") == "ok" and not r.get("nontrivial"))
    run.cov["rule"] = ("one case per (server configuration, server history: fresh / after an ordinary secured client "
                       "connected and left, OPN policy, OPN mode) state of the model plus one per "
                       "configuration for the advertised list; class = policy x mode x enabled? x configuration shape; "
                       "policy/mode combinations the client library cannot express are driven with a hand-built OPN "
                       "when the policy is None and counted as not driven otherwise")
    run.assumptions += [
        "per configuration one server process: first the requests of the fresh history (invalid policy/mode combinations before "
        "all others), then a secured client connects, sends a request and disconnects, then every request again",
        "a channel counts as established when the client's Dial returns nil; a request on it is sent as a cross-check",
        "advertised endpoints are read over the wire (GetEndpoints) and through Server.Endpoints(), for both endpoint URLs of the "
        "listener (127.0.0.1 and localhost), at the start and at the end of every configuration's run (10 readings)",
    ]


vf.main(body, "C30", design_ref="S8/C30")
