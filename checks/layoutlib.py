# Shared helpers of the Layout/Crypto family checks (C38, C07, C08): cfg text for
# spec/ChunkLayout generated per tier/seed, the TLAPS runner, LayoutTrace validation.
import os
import random
import re
import shutil
import subprocess
import tempfile
import time

import vf


def cfg(csizes, ks=(1,), extra=(), emit=False, init="Init", nxt="Next", invs=(), sweep=(8192, 8192),
        dev_inside=False, dev_short=False, dev_final=False):
    def sset(xs):
        return "{" + ", ".join(str(x) for x in sorted(set(xs))) + "}"
    t = "CONSTANTS\n"
    t += "  CSizes = %s\n  Ks = %s\n  Ds <- DsDefault\n  ExtraBodies = %s\n" % (sset(csizes), sset(ks), sset(extra))
    t += "  SweepLo = %d\n  SweepHi = %d\n" % sweep
    t += "  Emit = %s\n" % ("TRUE" if emit else "FALSE")
    t += "  Dev_PadInsideFloor = %s\n  Dev_ShortIntermediate = %s\n  Dev_IntermediateFinal = %s\n" % tuple(
        "TRUE" if x else "FALSE" for x in (dev_inside, dev_short, dev_final))
    t += "INIT %s\nNEXT %s\n" % (init, nxt)
    for i in invs:
        t += "INVARIANT %s\n" % i
    t += "CHECK_DEADLOCK FALSE\n"
    return t


MACHINE_INVS = ("ThmC38", "ThmWindow", "InvFastSame", "InvFits", "InvMsgSize", "InvKinds", "InvRoundTrip", "InvBodyBound")


def seeded_sizes(seed, n, lo=8192, hi=1 << 20):
    rnd = random.Random(seed * 7919 + 17)
    return [rnd.randrange(lo, hi + 1) for _ in range(n)]


def tlapm(run, timeout=1500):
    """Run the TLAPS proof of the C38 arithmetic (unbounded chunk sizes). Returns number of obligations."""
    d = tempfile.mkdtemp(prefix="tlapm-", dir=run.scratch)
    src = os.path.join(vf.VERIF, "spec", "ChunkLayout")
    for f in ("LayoutArith.tla", "LayoutArithProof.tla"):
        shutil.copy(os.path.join(src, f), d)
    t0 = time.time()
    out = ""
    m = None
    # SMT time-outs are wall-clock: on a loaded machine an obligation may time out. Proved obligations
    # are kept in the fingerprint cache of the scratch directory, so a retry only re-runs the failed ones.
    for attempt, stretch in enumerate(("4", "10", "30")):
        try:
            p = subprocess.run(["tlapm", "--threads", "6", "--stretch", stretch, "LayoutArithProof.tla"], cwd=d,
                               stdout=subprocess.PIPE, stderr=subprocess.STDOUT, text=True, errors="replace",
                               timeout=timeout)
        except subprocess.TimeoutExpired:
            raise vf.Inconclusive("tlapm timed out after %ds" % timeout)
        out = p.stdout
        m = re.search(r"All (\d+) obligations? proved", out)
        if m:
            break
        run.log("tlapm attempt %d: %s" % (attempt + 1, (re.findall(r"\d+/\d+ obligations failed", out) or ["?"])[0]))
    if not m:
        run.save_text("tlapm.out", out)
        raise vf.Inconclusive("TLAPS did not prove LayoutArithProof: %s" % out[-800:])
    n = int(m.group(1))
    run.cov["proof"] = {"module": "ChunkLayout/LayoutArithProof.tla", "obligations_proved": n, "backend": "SMT (tlapm)",
                        "wall_s": round(time.time() - t0, 1),
                        "theorems": ["FitsSym", "SmallerFitsSym", "FitsNone", "CoreMax", "CoreSmaller", "Unfold"]}
    return n


def validate_layout_records(run, recs, label):
    """code -> spec: let TLC validate observed layout records against ChunkLayout (LayoutTrace)."""
    import json
    if not recs:
        return None
    text = "".join(json.dumps(r) + "\n" for r in recs)
    tr = run.tlc("ChunkLayout", "LayoutTrace", "LayoutTrace.cfg", mode="trace", files={"trace.ndjson": text},
                 label=label, timeout=1800)
    return tr


def show_inconclusive(run, n=5):
    for r in run.inconclusive[:n]:
        run.log("inconclusive: %s" % str(r)[:400])


def corrupting():
    return bool(os.environ.get("VERIF_CORRUPT"))


def corrupt_rows(run, rows):
    """Binding demonstration (VERIF_CORRUPT=1): change one expected value of the oracle; the replay must reject it."""
    if not corrupting():
        return
    if run.prop == "C38":
        # the specification now "claims" a larger maximum body for one SignAndEncrypt configuration
        g = [r for r in rows if "table" not in r and r["mode"] == "SignAndEncrypt" and r["cs"] == 8192 and r["pol"] == "Basic256"]
        for r in g:
            r["maxBody"] += 16
        run.log("VERIF_CORRUPT: MaxBody of %d rows (Basic256/SignAndEncrypt/8192) raised by 16" % len(g))
        return
    for r in rows:
        if "table" not in r and r["mode"] == "Sign" and len(r["chunks"]) == 2:
            r["chunks"][0]["sig"] += 1      # the specification now "expects" a longer signature
            run.log("VERIF_CORRUPT: signature length of row %s/%s cs=%d n=%d changed" % (r["pol"], r["mode"], r["cs"], r["n"]))
            return
