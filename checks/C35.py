# C35 -- services other than discovery and session setup require an activated session.
# spec/ServerCore (InvSessionRequired): every protected service has the shape "valid caller ->
# service contract / any other caller -> session error, nothing changes".  TLC proves the
# invariant on the contract model, shows a service that runs without a session violates it,
# and generates the scripts: s1 owns a subscription with an item, s2 walks through its life
# cycle (never created / created / activated / closed) while s2 or a ghost caller (null,
# never-issued and foreign-server token) probes every protected service, also with the ids of
# s1's subscription and item.  The scripts run on a raw channel with chosen authentication
# tokens; answers + privileged table snapshots are validated by TLC against ServerCoreTrace.
import vf
import servercore_common as sc


def body(run):
    sc.core_check(
        run, "C35",
        # quick: 1 probe per script, 6 life-cycle stages incl. "activation rejected"; thorough: life cycle goes on
        # after a rejection + seeded 2-probe scripts
        run.pick([("ServerCoreGen_session_q.cfg", None, None)],
                 [("ServerCoreGen_session_t.cfg", None, None), ("ServerCoreGen_session_t2.cfg", 100, 6)]),
        mc_cfgs=[("ServerCore_mc.cfg", "contract: session, id and owner invariants on 2 sessions + null caller")],
        dev_cfgs=[("ServerCore_dev_nosession-Read.cfg", "deviation demo: Read answered without a session")],
        max_deaths=run.pick(6, 25))
    run.cov["rule"] = ("one script per (life-cycle stage of s2, caller in {s2, null, unknown, foreign}, protected service, "
                       "target id); class = stage x caller x service x target; exhaustive with 1 probe (quick: callers s2, null, alias; "
                       "thorough: all five callers) + seeded 2-probe scripts in thorough")
    run.assumptions += [
        "session errors are BadSessionIdInvalid, BadSessionClosed, BadSessionNotActivated",
        "'no action' is checked on the subscription / monitored item tables and the node value (privileged snapshot)",
        "a created-but-not-activated session may or may not be closable (left open)",
        "the unsupported-service probe is RegisterNodes",
        "channel Basic256Sha256/Sign; a rejected activation = client signature with one flipped byte (BadSecurityChecksFailed)",
    ]


vf.main(body, "C35", design_ref="S10/C35")
